CONSTANTS
  Scale = 100
  FScale = 1000
  Defects = {}
  ModSvc <- NoModSvc
  TraceFile = "trace.ndjson"
  Check = {"C01","C02","C03","C04","C05","C06","C07","C08","C09","C10","C11","C12","C13","C14","C15","C16","C18","C20"}
SPECIFICATION TraceSpec
CHECK_DEADLOCK FALSE
