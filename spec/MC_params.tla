----------------------------- MODULE MC_params -----------------------------
(* governance changes the parameters under a running context: the maximum request timeout is   *)
(* lowered below the context's own, slashing becomes total or is switched off, the minimum      *)
(* deposit rises.  C02 C04 C08 C10 C11 C14 C16 with SetParams interleaved everywhere.           *)
EXTENDS MCService

C_Accts == {"o1", "p1", "c1"}
C_Signers == {"o1"}
C_Provs == {"p1"}
C_Consumers == {"c1"}
C_Svcs == {"s1"}
C_InitDefs == {"s1"}
PrA == [price |-> 2, pt |-> <<>>, pv |-> <<>>]
C_InitBinds == {[s |-> "s1", p |-> "p1", o |-> "o1", dep |-> 8, pr |-> PrA, qos |-> 1, avail |-> TRUE]}
C_InitBal == [a \in C_Accts |-> IF a = "c1" THEN 7 ELSE 0]
C_Params == [maxTimeout |-> 3, multiple |-> 2, minDeposit |-> 4, tax |-> 1, slash |-> 5, refundDelay |-> 2, lax |-> FALSE]
C_ParamAlts == {C_Params, [C_Params EXCEPT !.maxTimeout = 1], [C_Params EXCEPT !.slash = 10],
                [C_Params EXCEPT !.slash = 0, !.minDeposit = 9]}
C_Prs == {PrA}
C_ProvSeqs == {<<"p1">>}
C_ModSvc == <<>>
C_Msgs == {"Call", "Pause", "Start", "UpdateContext", "Respond", "Enable", "SetParams", "NoSuper"}
=============================================================================
