---------------------------- MODULE ServiceProps ----------------------------
(***************************************************************************)
(* The listed properties C01..C16 (and the state parts of C17..C20) as     *)
(* TLA+ formulas over the variables of Service.                            *)
(*                                                                         *)
(*   Inv_Cxx   state predicate                                             *)
(*   Step_Cxx  action formula over <<vars, ev, hist>> and their primes     *)
(*                                                                         *)
(* ev is the event that led to the current state (name, signer, arguments, *)
(* outcome); hist is a compact history per context.  Both are observers:   *)
(* no action guard of Service reads them.  The same formulas are checked   *)
(* by TLC on the specification (MCService) and on traces projected from    *)
(* the implementation (ServiceTrace).                                      *)
(***************************************************************************)
EXTENDS Service

VARIABLES
    ev,     \* the event of the step that led here
    hist    \* id -> [created, lastStart, maxTotal, stable, starts]

pvars == <<vars, ev, hist>>

Ordinary == (DOMAIN bal) \ ModuleAccts

MsgNames == {"Define", "Bind", "UpdateBinding", "Disable", "Enable", "RefundDeposit",
             "SetWithdrawAddr", "Call", "Respond", "Pause", "Start", "Kill", "UpdateContext",
             "Withdraw"}
ModNames == {"ModCreate", "ModPause", "ModStart", "ModKill", "ModUpdate"}
SubNames == {"BeginEndBlock", "ExpireBatch", "Mid", "StartBatch", "EndBlock"}
\* events that are not steps of the system: start of a new history, observation of the state
MetaNames == {"reset", "restore", "Obs", "PrepZeroHeight", "Genesis", "Restart", "TxAbort"}
\* ("TxAbort": a transaction of several messages failed at a later message - the effects of its earlier
\* messages, which were steps like any other, are dropped and the state is that before the transaction)
\* (zero-height preparation and export end a history: the chain stops there, and only C19 and
\* C20 speak about those two steps)

IsMeta(e) == e.name \in MetaNames

\* what the owning module did to context id from inside a callback of this step, successfully
ReactedOK(id, op) == \E i \in DOMAIN cb' : cb'[i].kind = "react" /\ cb'[i].id = id /\ cb'[i].op = op /\ cb'[i].ok
Ok(e, n) == e.name = n /\ e.ok

Rid(e) == <<e.rid[1], e.rid[2], e.rid[3], e.rid[4]>>

\* requests settled / issued by the step
Settled == actId \ actId'
Issued  == actId' \ actId

FeeIn(rq, r)  == IF r \in DOMAIN rq THEN rq[r].fee ELSE 0
ConsOf(r)     == IF r[1] \in DOMAIN ctx THEN ctx[r[1]].cons ELSE ""

SumFees(rq, S) == SumOver([r \in S |-> FeeIn(rq, r)], S)
SumEarned(f)   == SumOver(f, DOMAIN f)

-----------------------------------------------------------------------------
(* history observer *)

INF == -1
TotMax(a, b) == IF a = INF \/ b = INF THEN INF ELSE Max(a, b)

HistInit == <<>>

\* after a "restore" (the exhaustive search of the implementation returns to an earlier node) the
\* past of the existing contexts is not known to the monitor: nothing is assumed about it
HistUnknown(cx) == [id \in DOMAIN cx |-> [created |-> -1, lastStart |-> -1, maxTotal |-> INF, stable |-> FALSE,
                                            starts |-> cx[id].batch]]

\* a restart from a zero-height export: the contexts live on with their totals and the batches they
\* have had; where they were in their cadence is forgotten
HistRestart(cx) ==
    [id \in DOMAIN cx |->
        IF id \in DOMAIN hist
        THEN [hist[id] EXCEPT !.created = -1, !.lastStart = -1, !.stable = FALSE]
        ELSE HistUnknown(cx)[id]]

\* computed from the step (vars, vars'); never read by Service's actions
HistNext ==
    [id \in DOMAIN ctx' |->
        IF id \notin DOMAIN ctx
        THEN [created |-> height, lastStart |-> -1,
              maxTotal |-> IF ctx'[id].rep THEN ctx'[id].total ELSE 1, stable |-> FALSE, starts |-> 0]
        ELSE LET h == IF id \in DOMAIN hist THEN hist[id]
                      ELSE [created |-> -1, lastStart |-> -1, maxTotal |-> INF, stable |-> FALSE,
                            starts |-> ctx[id].batch]
                 o == ctx[id]
                 n == ctx'[id]
                 started == n.batch > o.batch
             IN [created  |-> h.created,
                 lastStart |-> IF started THEN height ELSE h.lastStart,
                 maxTotal |-> IF n.rep THEN TotMax(h.maxTotal, n.total) ELSE h.maxTotal,
                 stable   |-> /\ n.state = "running"
                              /\ n.timeout = o.timeout /\ n.freq = o.freq
                              /\ (started \/ h.stable),
                 starts   |-> IF started THEN h.starts + 1 ELSE h.starts]]

-----------------------------------------------------------------------------
(* C01  escrowed service fees are always exactly backed *)

\* "every legal parameter set": what is in force is legal (the module's validators keep anything else out)
LegalParams == /\ params.slash >= 0 /\ params.slash <= FScale /\ params.tax >= 0 /\ params.tax < FScale
               /\ params.maxTimeout > 0 /\ params.multiple > 0 /\ params.minDeposit >= 0

Inv_C01 == bal[REQ] = SumFees(req, actId) + SumEarned(earned)
Step_C01 == TRUE

-----------------------------------------------------------------------------
(* C02  each paid request is settled exactly once, to the right party *)

OrdUnchangedExcept(A) == \A a \in Ordinary \ A : bal'[a] = bal[a]

Step_C02 ==
    LET e == ev' IN
    IF IsMeta(e) THEN TRUE
    ELSE IF Ok(e, "Respond") THEN
        LET r == Rid(e)
            fee == FeeIn(req, r)
            tax == TaxOf(fee)
            p == e.signer
        IN /\ r \in actId /\ Settled = {r} /\ Issued = {}
           /\ r \in DOMAIN req /\ req[r].prov = p
           /\ IF e.kind = "bad"
              THEN /\ earned' = earned /\ oearned' = oearned
                   /\ bal'[TAX] = bal[TAX]
                   /\ bal'[REQ] = bal[REQ] - fee
                   /\ \A a \in Ordinary : bal'[a] = bal[a] + (IF a = ConsOf(r) THEN fee ELSE 0)
              ELSE /\ earned' = AddTo(earned, p, fee - tax)
                   /\ bal'[TAX] = bal[TAX] + tax
                   /\ bal'[REQ] = bal[REQ] - tax
                   /\ OrdUnchangedExcept({})
    ELSE IF e.name = "ExpireBatch" THEN
        /\ Issued = {}
        /\ \A r \in Settled : r[1] = e.id
        \* the time-out path settles a request when its own expiry block ends, not earlier or later
        /\ \A r \in Settled : r \in DOMAIN req /\ req[r].exp = height
        /\ earned' = earned /\ oearned' = oearned
        /\ bal'[TAX] = bal[TAX]
        /\ bal'[REQ] = bal[REQ] - SumFees(req, Settled)
        /\ \A a \in Ordinary :
              bal'[a] = bal[a] + SumFees(req, {r \in Settled : ConsOf(r) = a})
    ELSE IF e.name = "StartBatch" THEN
        /\ Settled = {}
        /\ \A r \in Issued : /\ r[1] = e.id
                             /\ e.id \in DOMAIN ctx'
                             /\ r[2] = ctx'[e.id].batch
                             /\ r[3] = height
                             /\ e.id \in DOMAIN ctx /\ r[2] = ctx[e.id].batch + 1
        /\ earned' = earned /\ oearned' = oearned
        /\ bal'[TAX] = bal[TAX]
        /\ bal'[REQ] = bal[REQ] + SumFees(req', Issued)
        /\ \A a \in Ordinary :
              bal'[a] = bal[a] - (IF e.id \in DOMAIN ctx /\ a = ctx[e.id].cons
                                  THEN SumFees(req', Issued) ELSE 0)
    ELSE
        /\ Settled = {} /\ Issued = {}
        /\ bal'[TAX] = bal[TAX]
        /\ (~Ok(e, "Withdraw") => bal'[REQ] = bal[REQ] /\ earned' = earned /\ oearned' = oearned)
        \* a withdrawal takes earnings - fees already settled - and never the fees of requests still open
        /\ (Ok(e, "Withdraw") => bal[REQ] - bal'[REQ] = SumEarned(earned) - SumEarned(earned'))
        \* exactly one settlement *happens*: when a block has ended, no request whose expiry block
        \* it was is still waiting for its settlement
        /\ (e.name = "EndBlock" => \A r \in actId' : r \in DOMAIN req' /\ req'[r].exp >= height')

-----------------------------------------------------------------------------
(* C03  binding deposits stay in custody and leave only by the rules *)

DepOf(bd, k) == IF k \in DOMAIN bd THEN bd[k].dep ELSE 0
SumDeps(bd) == SumOver([k \in DOMAIN bd |-> bd[k].dep], DOMAIN bd)

Inv_C03 == bal[DEP] = SumDeps(bind)

SlashEvent(e) == (Ok(e, "Respond") /\ e.kind = "bad") \/ e.name = "ExpireBatch"
Decrease(k) == Max(0, DepOf(bind, k) - DepOf(bind', k))

Step_C03 ==
    LET e == ev' IN
    IF IsMeta(e) THEN TRUE
    ELSE
    /\ \A k \in DOMAIN bind' :
         LET old == DepOf(bind, k)
             new == DepOf(bind', k)
         IN /\ new > old =>
                 /\ e.name \in {"Bind", "UpdateBinding", "Enable"} /\ e.ok
                 /\ k = BK(e.svc, e.prov)
                 /\ new - old = e.deposit
                 /\ bal'[e.signer] = bal[e.signer] - e.deposit
                 /\ bal'[DEP] = bal[DEP] + e.deposit
            /\ new < old =>
                 \/ /\ Ok(e, "RefundDeposit")
                    /\ k = BK(e.svc, e.prov)
                    /\ new = 0
                    /\ ~bind[k].avail
                    /\ now >= bind[k].dtime + params.refundDelay
                    /\ bind[k].owner = e.signer
                    /\ bal'[bind[k].owner] = bal[bind[k].owner] + old
                    /\ supply' = supply
                 \/ SlashEvent(e)
    /\ IF SlashEvent(e)
       THEN supply' = supply - SumOver([k \in DOMAIN bind |-> Decrease(k)], DOMAIN bind)
       ELSE supply' = supply
    /\ (Ok(e, "RefundDeposit") => DepOf(bind, BK(e.svc, e.prov)) > 0)

-----------------------------------------------------------------------------
(* C04  providers are slashed exactly when they fail a request *)

RECURSIVE SlashN(_, _)
SlashN(dep, n) == IF n = 0 THEN dep ELSE SlashN(dep - SlashOf(dep), n - 1)

\* the binding a request is addressed to
BindOfReq(r) == BK(ctx[r[1]].svc, req[r].prov)

\* number of failures of binding k in this step
Failures(k) ==
    LET e == ev' IN
    IF Ok(e, "Respond") /\ e.kind = "bad"
    THEN (IF Rid(e) \in DOMAIN req /\ Rid(e)[1] \in DOMAIN ctx /\ BindOfReq(Rid(e)) = k THEN 1 ELSE 0)
    ELSE IF e.name = "ExpireBatch"
    \* a request has timed out when its own expiry block is ending - not before
    THEN Cardinality({r \in Settled : /\ r \in DOMAIN req /\ r[1] \in DOMAIN ctx
                                      /\ req[r].exp <= height
                                      /\ ~ctx[r[1]].super /\ BindOfReq(r) = k})
    ELSE 0

Step_C04 ==
    LET e == ev' IN
    IF IsMeta(e) THEN TRUE
    ELSE
    \* slashed once for each request that times out unanswered: none is left pending (and so
    \* unpunished) when its expiry block has ended
    /\ (e.name = "EndBlock" => \A r \in actId' : r \in DOMAIN req' /\ req'[r].exp >= height')
    /\ \A k \in DOMAIN bind :
        LET n == Failures(k)
            b == bind[k]
            b1 == bind'[k]
        IN /\ k \in DOMAIN bind'
           /\ IF n > 0
              THEN /\ b1.dep = SlashN(b.dep, n)
                   /\ IF b.avail /\ b1.dep < MinDep(b.pr)
                      THEN ~b1.avail /\ b1.dtime = now
                      ELSE b1.avail = b.avail /\ b1.dtime = b.dtime
              ELSE \* never slashed for any other reason: the deposit shrinks only by a refund
                   /\ (b1.dep < b.dep => Ok(e, "RefundDeposit") /\ k = BK(e.svc, e.prov))
                   /\ (SlashEvent(e) => b1.avail = b.avail /\ b1.dtime = b.dtime)

-----------------------------------------------------------------------------
(* C05  only the rightful party can act, and a message debits only its signer *)

Step_C05 ==
    LET e == ev' IN
    IF IsMeta(e) THEN TRUE
    ELSE
    /\ (e.name \in {"UpdateBinding", "Disable", "Enable", "RefundDeposit"} /\ e.ok) =>
          /\ BK(e.svc, e.prov) \in DOMAIN bind
          /\ bind[BK(e.svc, e.prov)].owner = e.signer
    /\ (Ok(e, "Withdraw") /\ e.prov # "") =>
          /\ e.prov \in DOMAIN powner /\ powner[e.prov] = e.signer
          /\ \A k \in DOMAIN bind : k[2] = e.prov => bind[k].owner = e.signer
    /\ (e.name \in {"Pause", "Start", "Kill", "UpdateContext"} /\ e.ok) =>
          /\ e.id \in DOMAIN ctx
          /\ ctx[e.id].cons = e.signer
          /\ ctx[e.id].module = ""
    /\ Ok(e, "Respond") => Rid(e) \in DOMAIN req /\ req[Rid(e)].prov = e.signer
    /\ Ok(e, "Bind") =>
          /\ e.svc \notin DOMAIN ModSvc
          /\ (e.prov \in DOMAIN powner => powner[e.prov] = e.signer)
          \* (a provider belongs to the owner of its bindings, whatever the index says)
          /\ \A k \in DOMAIN bind : k[2] = e.prov => bind[k].owner = e.signer
    /\ (e.name \in MsgNames \cup {"BankSend"}) =>
          \A a \in Ordinary \ {e.signer} : bal'[a] >= bal[a]
    /\ (e.name \in SubNames) =>
          \A a \in Ordinary : bal'[a] < bal[a] =>
              /\ e.name = "StartBatch"
              /\ e.id \in DOMAIN ctx
              /\ a = ctx[e.id].cons
              /\ ctx[e.id].state = "running"
              /\ Issued # {}

-----------------------------------------------------------------------------
(* C06  requests go only to eligible providers, within the consumer's fee cap *)
(* C07  the fee charged follows the provider's published pricing             *)

\* price from the *published* pricing text (bind[k].pr), the block time and the recorded volume
PubPrice(c, p) == PriceOf(bind[BK(c.svc, p)].pr, now, Get0(vol, <<c.cons, c.svc, p>>))
PubEligibleP(c, p) ==
    /\ HasBind(c.svc, p)
    /\ bind[BK(c.svc, p)].avail
    /\ bind[BK(c.svc, p)].qos <= c.timeout
    /\ PubPrice(c, p) <= c.cap
PubEligible(c) == SelectSeq(c.provs, LAMBDA p : PubEligibleP(c, p))
PubTotal(c) == LET E == PubEligible(c) IN SumSeq([i \in DOMAIN E |-> PubPrice(c, E[i])])
Enough(c) == Len(PubEligible(c)) > 0 /\ Len(PubEligible(c)) >= c.thr
Broke(c) == Enough(c) /\ ~c.super /\ bal[c.cons] < PubTotal(c)

\* "the providers named in the context" are the consumer's: the list changes only by an accepted update
\* that carries a list, and then is that list
NamedStable ==
    LET e == ev' IN
    \A id \in DOMAIN ctx \cap DOMAIN ctx' :
        ctx'[id].provs # ctx[id].provs =>
            /\ e.name \in {"UpdateContext", "ModUpdate"} /\ e.ok /\ e.id = id
            /\ ctx'[id].provs = e.provs

Step_C06 ==
    LET e == ev' IN
    IF IsMeta(e) THEN TRUE
    ELSE IF ~NamedStable THEN FALSE
    ELSE IF e.name # "StartBatch" THEN Issued = {}
    ELSE IF e.id \notin DOMAIN ctx \/ e.id \notin DOMAIN ctx' THEN Issued = {}
    ELSE LET c == ctx[e.id]
             E == PubEligible(c)
         IN IF c.state # "running" THEN Issued = {}
            ELSE IF ~Enough(c)
            THEN /\ Issued = {}
                 /\ bal' = bal
                 /\ ctx'[e.id].batch = c.batch + 1
            ELSE IF Broke(c)
            THEN /\ Issued = {}
                 /\ bal' = bal
                 \* (paused - and then killed or started again, if that is how its module answers the state callback)
                 /\ ctx'[e.id].state = IF ReactedOK(e.id, "kill") THEN "completed"
                                       ELSE IF ReactedOK(e.id, "start") THEN "running" ELSE "paused"
            ELSE /\ {req'[r].prov : r \in Issued} = Range(E)
                 /\ Cardinality(Issued) = Len(E)
                 /\ \A r \in Issued : req'[r].fee <= c.cap

Step_C07 ==
    LET e == ev' IN
    IF IsMeta(e) THEN TRUE
    ELSE
    \* what the consumer pays at batch start is the sum of those fees (nothing in super mode)
    /\ (e.name = "StartBatch" /\ e.id \in DOMAIN ctx /\ Issued # {}) =>
          LET c == ctx[e.id]
              due == IF c.super THEN 0
                     ELSE SumOver([r \in Issued |-> IF HasBind(c.svc, req'[r].prov) THEN PubPrice(c, req'[r].prov) ELSE 0], Issued)
          IN bal'[c.cons] = bal[c.cons] - due
    /\ \A r \in Issued :
          /\ r[1] \in DOMAIN ctx
          /\ LET c == ctx[r[1]]
                 p == req'[r].prov
             IN /\ HasBind(c.svc, p)
                /\ req'[r].fee = (IF c.super THEN 0 ELSE PubPrice(c, p))
                /\ req'[r].fee <= Max(bind[BK(c.svc, p)].pr.price, 1)
    /\ IF Ok(e, "Respond") /\ Rid(e)[1] \in DOMAIN ctx
       THEN LET c == ctx[Rid(e)[1]]
                k == <<c.cons, c.svc, e.signer>>
            IN vol' = Put(vol, k, Get0(vol, k) + 1)
       ELSE vol' = vol

-----------------------------------------------------------------------------
(* C08  a request can be answered once, by its provider, until its expiry block ends *)

Inv_C08 == phase = "deliver" => \A r \in actId : r \in DOMAIN req /\ req[r].exp >= height

Step_C08 ==
    LET e == ev' IN
    IF IsMeta(e) THEN TRUE
    ELSE
    /\ \A r \in Issued : /\ r[1] \in DOMAIN ctx
                         /\ req'[r].rh = height
                         /\ req'[r].exp = height + ctx[r[1]].timeout
                         \* its designated provider is the one it is pending for
                         /\ \E a \in actBind' : a[4] = r /\ a[2] = req'[r].prov /\ a[3] = req'[r].exp
    /\ (e.name = "Respond") =>
         LET r == Rid(e) IN
         IF e.ok
         THEN /\ r \in actId
              /\ r \in DOMAIN req
              /\ req[r].prov = e.signer
              /\ height <= req[r].exp
              /\ r \notin DOMAIN resp
              /\ r \in DOMAIN resp'
              /\ (DOMAIN resp') \ (DOMAIN resp) = {r}
              /\ r \notin actId'
         ELSE \* rejected responses change nothing ...
              /\ UNCHANGED svars
              \* ... and a pending request's own provider is never turned away
              /\ ~(/\ r \in actId /\ r \in DOMAIN req /\ r[1] \in DOMAIN ctx
                   /\ req[r].prov = e.signer
                   /\ CanRespond(e.signer, r, e.kind))
    /\ (e.name # "Respond") => (DOMAIN resp') \subseteq (DOMAIN resp)
    \* a request stays pending until it is answered or its own expiry block ends
    /\ \A r \in Settled :
          \/ (e.name = "Respond" /\ e.ok /\ r = Rid(e))
          \/ (e.name = "ExpireBatch" /\ r \in DOMAIN req /\ req[r].exp = height)

-----------------------------------------------------------------------------
(* C09  request contexts follow their lifecycle state machine *)

Immutable(c) == <<c.svc, c.cons, c.input, c.super, c.rep, c.module>>


Step_C09 ==
    LET e == ev' IN
    IF IsMeta(e) THEN TRUE
    ELSE
    /\ \A id \in (DOMAIN ctx) \cap (DOMAIN ctx') :
         LET o == ctx[id]
             n == ctx'[id]
             onMe == "id" \in DOMAIN e /\ e.id = id
         IN /\ Immutable(n) = Immutable(o)
            \* completed is final: never restarted, updated or issued another batch
            \* (answers to its in-flight batch still update the batch bookkeeping)
            /\ (o.state = "completed" =>
                   /\ n.state = "completed" /\ n.batch = o.batch
                   /\ <<n.provs, n.cap, n.timeout, n.freq, n.total, n.thr>>
                        = <<o.provs, o.cap, o.timeout, o.freq, o.total, o.thr>>)
            /\ (o.state = "running" /\ n.state = "paused") =>
                  \/ (e.name \in {"Pause", "ModPause"} /\ e.ok /\ onMe /\ o.rep)
                  \/ (e.name = "StartBatch" /\ onMe /\ Broke(o) /\ Issued = {})
                  \/ (ReactedOK(id, "pause") /\ o.rep)
            /\ (o.state = "paused" /\ n.state = "running") =>
                  \/ (e.name \in {"Start", "ModStart"} /\ e.ok /\ onMe)
                  \/ ReactedOK(id, "start")
            /\ (o.state # "completed" /\ n.state = "completed") =>
                  \/ (e.name \in {"Kill", "ModKill"} /\ e.ok /\ onMe /\ o.rep)
                  \/ (ReactedOK(id, "kill") /\ o.rep)
            \* a pause, kill or start the module made from inside a callback is one like any other
            /\ ReactedOK(id, "pause") => n.state = "paused"
            /\ ReactedOK(id, "kill") => n.state = "completed"
            /\ ReactedOK(id, "start") => n.state = "running"
            /\ n.batch \in {o.batch, o.batch + 1}
            /\ (n.batch = o.batch + 1) =>
                  (e.name = "StartBatch" /\ onMe /\ o.state = "running" /\ n.state = "running")
            \* pause, start, kill do exactly that
            /\ (e.name \in {"Pause", "ModPause"} /\ e.ok /\ onMe) => (o.state = "running" /\ o.rep /\ n.state = "paused")
            /\ (e.name \in {"Start", "ModStart"} /\ e.ok /\ onMe) => (o.state = "paused" /\ n.state = "running")
            /\ (e.name \in {"Kill", "ModKill"} /\ e.ok /\ onMe) => (o.rep /\ n.state = "completed")
            /\ (e.name \in {"UpdateContext", "ModUpdate"} /\ e.ok /\ onMe) => o.state # "completed"
    \* a context ends at the expiry of a batch - or, restarted after a zero-height export with all its
    \* batches behind it, when it comes up for another
    /\ \A id \in (DOMAIN ctx) \ (DOMAIN ctx') :
         \/ e.name = "ExpireBatch" /\ e.id = id
         \/ e.name = "StartBatch" /\ e.id = id /\ ctx[id].state = "running" /\ Exhausted(ctx[id])
    /\ \A id \in (DOMAIN ctx') \ (DOMAIN ctx) :
         /\ e.name \in {"Call", "ModCreate"} /\ e.ok
         /\ ctx'[id].batch = 0
    /\ \A r \in Issued :
         /\ e.name = "StartBatch" /\ r[1] = e.id
         /\ e.id \in DOMAIN ctx /\ ctx[e.id].state = "running"
         /\ e.id \in DOMAIN ctx' /\ ctx'[e.id].state = "running"

\* the zero-height preparation is no exception: what never changes does not change there, and a batch
\* that has been issued stays counted
Prep_C09 ==
    \A id \in (DOMAIN ctx) \cap (DOMAIN ctx') :
        /\ Immutable(ctx'[id]) = Immutable(ctx[id])
        /\ ctx'[id].batch = ctx[id].batch

-----------------------------------------------------------------------------
(* C10  repeated invocations keep their cadence and respect their total *)

Inv_C10 ==
    \A id \in DOMAIN ctx :
        /\ (~ctx[id].rep => ctx[id].batch <= 1)
        /\ (ctx[id].rep /\ id \in DOMAIN hist /\ hist[id].maxTotal # INF) =>
               /\ ctx[id].batch <= hist[id].maxTotal
               /\ hist[id].starts <= hist[id].maxTotal      \* (counted by the observer, across restarts)
        /\ (~ctx[id].rep /\ id \in DOMAIN hist) => hist[id].starts <= 1

\* "unchanged timeout and frequency": the terms of the cadence are the consumer's - they change only by an
\* accepted update that carries a new value, and then to that value
CadenceTermsStable ==
    LET e == ev' IN
    \A id \in DOMAIN ctx \cap DOMAIN ctx' :
        LET o == ctx[id]
            n == ctx'[id]
            upd == e.name \in {"UpdateContext", "ModUpdate"} /\ e.ok /\ e.id = id
        IN /\ n.timeout # o.timeout => (upd /\ e.timeout # 0 /\ n.timeout = e.timeout)
           /\ n.freq # o.freq => (upd /\ e.freq # 0 /\ n.freq = e.freq)
           /\ (upd /\ e.timeout # 0) => n.timeout = e.timeout
           /\ (upd /\ e.freq # 0) => n.freq = e.freq

Step_C10 ==
    LET e == ev' IN
    IF IsMeta(e) THEN TRUE
    ELSE
    /\ CadenceTermsStable
    /\ (e.name = "StartBatch" /\ e.id \in DOMAIN ctx /\ e.id \in DOMAIN ctx'
        /\ ctx'[e.id].batch > ctx[e.id].batch) =>
           \* never two batches in flight
           /\ e.id \notin DOMAIN expQH
           /\ ~\E x \in expQ : x[2] = e.id
           /\ ~\E r \in actId : r[1] = e.id
           \* cadence
           /\ (e.id \in DOMAIN hist /\ hist[e.id].stable /\ hist[e.id].lastStart >= 0) =>
                  height = hist[e.id].lastStart + ctx[e.id].freq
    /\ (e.name = "EndBlock") =>
           \A id \in DOMAIN ctx :
               (id \in DOMAIN hist /\ hist[id].created = height) =>
                   (ctx[id].batch >= 1 \/ ctx[id].state # "running")

-----------------------------------------------------------------------------
(* C11  a running context is never stranded *)

QOf(q, id) == {x \in q : x[2] = id}

Inv_C11 ==
    /\ newQ = {<<newQH[id], id>> : id \in DOMAIN newQH}
    /\ expQ = {<<expQH[id], id>> : id \in DOMAIN expQH}
    /\ \A x \in newQ \cup expQ : x[2] \in DOMAIN ctx /\ x[1] >= height
    /\ \A id \in DOMAIN ctx :
          /\ Cardinality(QOf(newQ, id)) <= 1
          /\ Cardinality(QOf(expQ, id)) <= 1
          /\ ctx[id].state = "running" =>
                Cardinality(QOf(newQ, id)) + Cardinality(QOf(expQ, id)) = 1
    /\ \A r \in actId :
          /\ r \in DOMAIN req
          /\ r[1] \in DOMAIN ctx
          /\ r[2] = ctx[r[1]].batch
          /\ r[1] \in DOMAIN expQH
          /\ expQH[r[1]] = req[r].exp
    /\ {a[4] : a \in actBind} = actId

Step_C11 ==
    LET e == ev' IN
    (e.name = "EndBlock") => \A x \in newQ' \cup expQ' : x[1] >= height'

-----------------------------------------------------------------------------
(* C12  batch bookkeeping and module callbacks are exact *)

Inv_C12 ==
    \A id \in DOMAIN ctx :
        LET c == ctx[id]
            inflight == id \in DOMAIN expQH
        IN /\ inflight =>
                /\ c.reqCount = Cardinality(ReqsOf(id, c.batch))
                /\ c.respCount = Cardinality(RespsOf(id, c.batch))
                /\ (c.bstate = "completed") <=> (c.reqCount > 0 /\ c.respCount = c.reqCount)
           /\ ~inflight => c.bstate = "completed"

RespCbs(s) == SelectSeq(s, LAMBDA x : x.kind = "resp")
\* the same outputs, each as often (the order in which a module receives them is not part of the property)
SameBag(s, t) == /\ Len(s) = Len(t)
                 /\ \A x \in Range(s) \cup Range(t) :
                       Cardinality({i \in DOMAIN s : s[i] = x}) = Cardinality({i \in DOMAIN t : t[i] = x})
\* exactly one response callback, for context id, with these outputs and this error flag
OneRespCb(s, want) ==
    /\ Len(RespCbs(s)) = 1
    /\ RespCbs(s)[1].id = want.id /\ RespCbs(s)[1].err = want.err
    /\ SameBag(RespCbs(s)[1].outs, want.outs)
StateCbs(s) == SelectSeq(s, LAMBDA x : x.kind = "state")

Step_C12 ==
    LET e == ev' IN
    IF IsMeta(e) THEN TRUE
    ELSE IF Ok(e, "Respond") /\ Rid(e)[1] \in DOMAIN ctx /\ Rid(e)[1] \in DOMAIN ctx'
    THEN LET id == Rid(e)[1]
             c == ctx[id]
             done == ctx'[id].bstate = "completed" /\ c.bstate = "running"
         IN /\ StateCbs(cb') = <<>>
            /\ IF done /\ c.module # ""
               THEN OneRespCb(cb', RespCb(id, c.batch, OutputsOf(resp', id, c.batch), c.bthr))
               ELSE RespCbs(cb') = <<>>
            /\ done <=> (c.respCount + 1 = c.reqCount)
    ELSE IF e.name = "ExpireBatch" /\ e.id \in DOMAIN ctx
    THEN LET id == e.id
             c == ctx[id]
         IN /\ StateCbs(cb') = <<>>
            \* a batch that is not answered in full is completed when its own expiry block ends, never earlier:
            \* the block of the expiry its requests were issued with
            /\ (c.bstate = "running" =>
                   /\ id \in DOMAIN expQH /\ expQH[id] = height
                   /\ \A r \in ReqsOf(id, c.batch) : req[r].exp = height)
            /\ IF c.bstate = "running" /\ c.module # ""
               THEN OneRespCb(cb', RespCb(id, c.batch, OutputsOf(resp, id, c.batch), c.bthr))
               ELSE RespCbs(cb') = <<>>
    ELSE IF e.name = "StartBatch" /\ e.id \in DOMAIN ctx
    THEN LET c == ctx[e.id]
         IN /\ RespCbs(cb') = <<>>
            /\ IF c.state = "running" /\ Broke(c) /\ c.module # ""
               THEN Len(StateCbs(cb')) = 1 /\ StateCbs(cb')[1].id = e.id
               ELSE StateCbs(cb') = <<>>
    ELSE /\ cb' = <<>>
         \* no other step completes a batch
         /\ \A id \in DOMAIN ctx \cap DOMAIN ctx' :
               (ctx[id].bstate = "running" => ctx'[id].bstate = "running")

-----------------------------------------------------------------------------
(* C13  earnings are accounted per provider and per owner and paid out exactly *)

ProvsOfOwner(o) == {p \in DOMAIN powner : powner[p] = o}

Inv_C13 ==
    /\ \A p \in DOMAIN earned : earned[p] > 0 /\ p \in DOMAIN powner
    /\ \A o \in DOMAIN oearned : oearned[o] > 0
    /\ \A o \in {powner[p] : p \in DOMAIN powner} \cup DOMAIN oearned :
          Get0(oearned, o) = SumOver([p \in ProvsOfOwner(o) |-> Get0(earned, p)], ProvsOfOwner(o))

Step_C13 ==
    LET e == ev' IN
    IF IsMeta(e) THEN TRUE
    ELSE
    /\ Ok(e, "Withdraw") =>
         LET o == e.signer
             dest == IF o \in DOMAIN waddr THEN waddr[o] ELSE o
             amt == IF e.prov = "" THEN Get0(oearned, o) ELSE Get0(earned, e.prov)
             paid == IF e.prov = "" THEN ProvsOfOwner(o) ELSE {e.prov}
         IN /\ \A a \in DOMAIN bal :
                 bal'[a] = bal[a] + (IF a = dest THEN amt ELSE 0) - (IF a = REQ THEN amt ELSE 0)
            /\ \A p \in (DOMAIN earned) \cup (DOMAIN earned') :
                 Get0(earned', p) = (IF p \in paid THEN 0 ELSE Get0(earned, p))
            /\ \A x \in (DOMAIN oearned) \cup (DOMAIN oearned') :
                 Get0(oearned', x) = (IF x = o THEN Get0(oearned, o) - amt ELSE Get0(oearned, x))
    \* the address in force for an owner (itself, if it chose none) changes only by that owner's own message,
    \* and then to the address the message names (how "the owner itself" is recorded is not the property's business)
    /\ \A o \in (DOMAIN waddr) \cup (DOMAIN waddr') :
          LET old == IF o \in DOMAIN waddr THEN waddr[o] ELSE o
              new == IF o \in DOMAIN waddr' THEN waddr'[o] ELSE o
          IN old # new => (Ok(e, "SetWithdrawAddr") /\ e.signer = o /\ new = e.addr)
    /\ Ok(e, "SetWithdrawAddr") =>
          (IF e.signer \in DOMAIN waddr' THEN waddr'[e.signer] ELSE e.signer) = e.addr
    /\ (~Ok(e, "Withdraw") /\ ~Ok(e, "Respond")) => (earned' = earned /\ oearned' = oearned)

-----------------------------------------------------------------------------
(* C14  an available binding always holds the minimum deposit for its price *)

\* (after the minimum collateral has been raised by a parameter change, bindings made before it may
\* sit below the new minimum; the rejections and the slash rule are judged by the steps)
Inv_C14 == ~params.lax => \A k \in DOMAIN bind : bind[k].avail => bind[k].dep >= MinDep(bind[k].pr)

-----------------------------------------------------------------------------
(* C15  definitions and bindings are unique, stable and consistently indexed *)

Inv_C15 ==
    /\ \A k \in DOMAIN bind :
          /\ bind[k].sp = bind[k].pr                        \* stored terms = published text
          /\ k[1] \in DOMAIN defs                           \* only for a defined service
          /\ k[2] \in DOMAIN powner /\ powner[k[2]] = bind[k].owner
    /\ obind = {<<bind[k].owner, k[1], k[2]>> : k \in DOMAIN bind}
    /\ oprov = {<<powner[p], p>> : p \in DOMAIN powner}
    /\ \A p \in DOMAIN powner : \E k \in DOMAIN bind : k[2] = p

Step_C15 ==
    LET e == ev' IN
    IF IsMeta(e) THEN TRUE
    ELSE
    /\ \A s \in DOMAIN defs : s \in DOMAIN defs' /\ defs'[s] = defs[s]
    /\ \A s \in (DOMAIN defs') \ (DOMAIN defs) : Ok(e, "Define") /\ e.svc = s
    /\ (e.name = "Define" /\ e.svc \in DOMAIN defs) => ~e.ok
    /\ \A k \in DOMAIN bind : k \in DOMAIN bind' /\ bind'[k].owner = bind[k].owner
    /\ \A k \in (DOMAIN bind') \ (DOMAIN bind) : Ok(e, "Bind") /\ k = BK(e.svc, e.prov)
    /\ (e.name = "Bind" /\ (HasBind(e.svc, e.prov) \/ e.svc \notin DOMAIN defs)) => ~e.ok
    /\ \A p \in DOMAIN powner : p \in DOMAIN powner' /\ powner'[p] = powner[p]

-----------------------------------------------------------------------------
(* C16  finished batches and contexts leave nothing behind *)

Inv_C16 ==
    /\ \A r \in DOMAIN req : r[1] \in DOMAIN ctx /\ r[2] = ctx[r[1]].batch
                             /\ req[r].ctx = r[1] /\ req[r].batch = r[2]
    /\ \A r \in DOMAIN resp : r \in DOMAIN req
    /\ actId \subseteq DOMAIN req
    /\ {a[4] : a \in actBind} = actId
    /\ \A a \in actBind : a[4] \in DOMAIN req /\ a[4][1] \in DOMAIN ctx =>
           /\ a[1] = ctx[a[4][1]].svc /\ a[2] = req[a[4]].prov /\ a[3] = req[a[4]].exp

Step_C16 ==
    LET e == ev' IN
    (e.name = "ExpireBatch" /\ e.id \in DOMAIN ctx) =>
        LET id == e.id
            c == ctx[id]
            b == c.batch
            fin == ~c.rep \/ (c.total >= 0 /\ c.batch >= c.total)
        IN /\ ReqsOf(id, b) \cap DOMAIN req' = {}
           /\ RespsOf(id, b) \cap DOMAIN resp' = {}
           /\ ~\E r \in actId' : r[1] = id /\ r[2] = b
           /\ ~\E a \in actBind' : a[4][1] = id /\ a[4][2] = b
           \* (killed also: by its module, from inside this expiry's response callback)
           /\ (c.state = "completed" \/ fin \/ ReactedOK(id, "kill")) <=> id \notin DOMAIN ctx'

-----------------------------------------------------------------------------
(* C18 (the part visible in the lifecycle): a request's id records its context, batch  *)
(* number, issue height and its position in that batch's issue event                  *)

Step_C18 ==
    LET e == ev' IN
    \* a context id is the transaction hash followed by the message index of the creating message
    /\ (e.name \in {"Call", "ModCreate"} /\ e.ok /\ "cidok" \in DOMAIN e) => e.cidok
    /\ (e.name = "StartBatch") =>
        /\ \A r \in Issued :
              /\ r[1] = e.id /\ r[3] = height
              /\ e.id \in DOMAIN ctx' /\ r[2] = ctx'[e.id].batch
              /\ req'[r].ctx = r[1] /\ req'[r].batch = r[2] /\ req'[r].rh = r[3]
        /\ ("evreqs" \in DOMAIN e) =>
              /\ Len(e.evreqs) = Cardinality(Issued)
              /\ \A r \in Issued :
                    /\ r[4] + 1 \in DOMAIN e.evreqs
                    /\ LET x == e.evreqs[r[4] + 1]
                       IN /\ x.ctx = r[1] /\ x.batch = r[2] /\ x.rh = r[3]
                          /\ x.prov = req'[r].prov /\ x.fee = req'[r].fee /\ x.exp = req'[r].exp

-----------------------------------------------------------------------------
(* C19  state survives export and re-import; zero-height export returns all escrow *)

\* the genesis-relevant part of a state: what export / import must preserve
GenesisPart(df, bd, po, op, ob, wa, cx, pa) == <<df, bd, po, op, ob, wa, cx, pa>>

Step_C19 ==
    LET e == ev' IN
    IF e.name = "PrepZeroHeight" THEN
        /\ e.ok
        /\ bal'[REQ] = 0
        /\ \A a \in Ordinary :
              bal'[a] = bal[a]
                        + SumFees(req, {r \in actId : ConsOf(r) = a})   \* pending fees back to the consumer
                        + Get0(earned, a)                                \* earnings to the provider
        /\ bal'[DEP] = bal[DEP] /\ bal'[TAX] = bal[TAX] /\ supply' = supply
        /\ DOMAIN ctx' = DOMAIN ctx
        /\ \A id \in DOMAIN ctx' : ctx'[id].state = "paused" /\ ctx'[id].bstate = "completed"
        /\ UNCHANGED <<defs, bind, powner, oprov, obind, waddr>>
    ELSE TRUE

\* the "Genesis" observation (export, validation, JSON round trip, import into a fresh
\* application, second export) is judged in ServiceTrace, where the imported state is at hand

-----------------------------------------------------------------------------
(* C20 (state part): no step ends in a panic *)

Step_C20 == ("panic" \in DOMAIN ev') => ~ev'.panic

=============================================================================
