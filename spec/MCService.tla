----------------------------- MODULE MCService -----------------------------
(***************************************************************************)
(* Bounded instances of Service for exhaustive checking and simulation.    *)
(* One module, several .cfg files (one per property family).               *)
(***************************************************************************)
EXTENDS ServiceProps

CONSTANTS
    Accts,        \* ordinary accounts
    Signers,      \* accounts that send binding / context messages (subset of Accts)
    Provs,        \* accounts used as providers
    Consumers,    \* accounts that call services
    SvcNames,     \* service names used in messages (defined at Init: InitDefs)
    InitDefs,     \* services defined in the initial state
    InitBinds,    \* set of [s, p, o, dep, pr, qos, avail]: bindings of the initial state
    InitBal,      \* function Accts -> initial balance
    Params,       \* the params record
    Prs,          \* pricing records offered in Bind / UpdateBinding
    Deposits,     \* deposits offered in Bind / UpdateBinding / Enable (0 = none)
    QosSet,       \* response times offered
    Caps,         \* fee caps
    Timeouts,     \* timeouts
    Freqs,        \* frequencies (0 = default)
    Totals,       \* totals for repeated calls
    ProvSeqs,     \* provider lists offered in Call / UpdateContext
    Dts,          \* block time increments
    Thresholds,   \* response thresholds of module contexts
    Kinds,        \* response kinds
    Msgs,         \* names of the message types enabled in this configuration
    WithPrep,     \* TRUE: zero-height preparation may end a behaviour (C19 only)
    MaxHeight,
    MaxCtx,       \* number of contexts ever created
    MaxBatch      \* bound on the batch counter

ASSUME Signers \subseteq Accts /\ Provs \subseteq Accts /\ Consumers \subseteq Accts

AllAccts == Accts \cup ModuleAccts

InitBindFn ==
    [k \in {BK(b.s, b.p) : b \in InitBinds} |->
        LET b == CHOOSE x \in InitBinds : BK(x.s, x.p) = k
        IN [owner |-> b.o, dep |-> b.dep, pr |-> b.pr, sp |-> b.pr, qos |-> b.qos,
            avail |-> b.avail, dtime |-> 0]]

InitNowVal == 0

MCInit ==
    /\ height = 1
    /\ now = InitNowVal
    /\ phase = "deliver"
    /\ params = Params
    /\ bal = [a \in AllAccts |->
                IF a = DEP THEN SumOver([b \in InitBinds |-> b.dep], InitBinds)
                ELSE IF a \in Accts THEN InitBal[a] ELSE 0]
    /\ supply = SumOver([a \in Accts |-> InitBal[a]], Accts) + SumOver([b \in InitBinds |-> b.dep], InitBinds)
    /\ defs = [s \in InitDefs |-> [author |-> "a", dg |-> "d"]]
    /\ bind = InitBindFn
    /\ powner = [p \in {b.p : b \in InitBinds} |-> (CHOOSE b \in InitBinds : b.p = p).o]
    /\ oprov = {<<b.o, b.p>> : b \in InitBinds}
    /\ obind = {<<b.o, b.s, b.p>> : b \in InitBinds}
    /\ waddr = <<>>
    /\ nctx = 0
    /\ ctx = <<>>
    /\ newQ = {} /\ newQH = <<>> /\ expQ = {} /\ expQH = <<>>
    /\ req = <<>> /\ actId = {} /\ actBind = {} /\ resp = <<>> /\ vol = <<>>
    /\ earned = <<>> /\ oearned = <<>>
    /\ cb = <<>>
    /\ ev = [name |-> "reset", ok |-> TRUE, signer |-> ""]
    /\ hist = HistInit

\* the simulator overrides this to make the frequent-but-dull messages rarer than the interesting ones
Gate(m) == TRUE
On(m) == m \in Msgs /\ Gate(m)

\* parameter records a governance change may install (a configuration overrides this: ParamAlts <- ...)
ParamAlts == {}
\* what a module context's owner does from inside its response / state callback (a configuration may widen this)
Reactions == {<<"", "", 0>>}
ParamGate == TRUE    \* the simulator overrides this to make parameter changes rarer than messages

\* argument sets: everything in exhaustive runs, one random element per evaluation in simulation
Pick(S) == S

OutOf(r, kind) == IF kind = "none" THEN "" ELSE IF kind = "bad" THEN "B" ELSE "V"

MsgStep ==
    \/ On("Define") /\ \E a \in Pick(Signers), s \in Pick(SvcNames) :
          /\ Define(a, s, "d")
          /\ ev' = [name |-> "Define", ok |-> TRUE, signer |-> a, svc |-> s, dg |-> "d"]
    \/ On("Bind") /\ \E o \in Pick(Signers), s \in Pick(SvcNames), p \in Pick(Provs), d \in Pick(Deposits \ {0}), pr \in Pick(Prs), q \in Pick(QosSet) :
          /\ Bind(o, s, p, d, TRUE, pr, TRUE, q)
          /\ ev' = [name |-> "Bind", ok |-> TRUE, signer |-> o, svc |-> s, prov |-> p, deposit |-> d,
                    dok |-> TRUE, pr |-> pr, prok |-> TRUE, qos |-> q]
    \/ On("UpdateBinding") /\ \E o \in Pick(Signers), s \in Pick(SvcNames), p \in Pick(Provs), d \in Pick(Deposits), hasPr \in Pick(BOOLEAN), pr \in Pick(Prs), q \in Pick(QosSet \cup {0}) :
          /\ (~hasPr => pr = CHOOSE x \in Prs : TRUE)
          /\ (d # 0 \/ hasPr \/ q # 0)
          /\ UpdateBinding(o, s, p, d, TRUE, hasPr, pr, TRUE, q)
          /\ ev' = [name |-> "UpdateBinding", ok |-> TRUE, signer |-> o, svc |-> s, prov |-> p,
                    deposit |-> d, dok |-> TRUE, hasPr |-> hasPr, pr |-> pr, prok |-> TRUE, qos |-> q]
    \/ On("Disable") /\ \E o \in Pick(Signers), s \in Pick(SvcNames), p \in Pick(Provs) :
          /\ Disable(o, s, p)
          /\ ev' = [name |-> "Disable", ok |-> TRUE, signer |-> o, svc |-> s, prov |-> p]
    \/ On("Enable") /\ \E o \in Pick(Signers), s \in Pick(SvcNames), p \in Pick(Provs), d \in Pick(Deposits) :
          /\ Enable(o, s, p, d, TRUE)
          /\ ev' = [name |-> "Enable", ok |-> TRUE, signer |-> o, svc |-> s, prov |-> p,
                    deposit |-> d, dok |-> TRUE]
    \/ On("RefundDeposit") /\ \E o \in Pick(Signers), s \in Pick(SvcNames), p \in Pick(Provs) :
          /\ RefundDeposit(o, s, p)
          /\ ev' = [name |-> "RefundDeposit", ok |-> TRUE, signer |-> o, svc |-> s, prov |-> p]
    \/ On("SetWithdrawAddr") /\ \E o \in Pick(Signers), w \in Pick(Signers \cup Consumers) :
          /\ o # w
          /\ SetWithdrawAddr(o, w)
          /\ ev' = [name |-> "SetWithdrawAddr", ok |-> TRUE, signer |-> o, addr |-> w]
    \/ On("Call") /\ nctx < MaxCtx /\
          \E c \in Pick(Consumers), s \in Pick(SvcNames), ps \in Pick(ProvSeqs), cap \in Pick(Caps), t \in Pick(Timeouts),
             super \in Pick(BOOLEAN), rep \in Pick(BOOLEAN), f \in Pick(Freqs), n \in Pick(Totals) :
          /\ (On("NoSuper") => ~super)
          /\ (rep => (f = 0 \/ f >= t))
          /\ (~rep => f = 0 /\ n = 1)
          /\ Call(c, s, ps, "in", cap, TRUE, TRUE, t, super, rep, f, IF rep THEN n ELSE 0)
          /\ ev' = [name |-> "Call", ok |-> TRUE, signer |-> c, svc |-> s, provs |-> ps,
                    input |-> "in", cap |-> cap, capok |-> TRUE, inok |-> TRUE, timeout |-> t,
                    super |-> super, rep |-> rep, freq |-> f, total |-> IF rep THEN n ELSE 0,
                    id |-> nctx + 1]
    \/ On("ModCreate") /\ nctx < MaxCtx /\
          \E c \in Pick(Consumers), s \in Pick(SvcNames), ps \in Pick(ProvSeqs), cap \in Pick(Caps), t \in Pick(Timeouts),
             rep \in Pick(BOOLEAN), f \in Pick(Freqs), n \in Pick(Totals), st \in Pick({"running", "paused"}), thr \in Pick(Thresholds),
             ra \in Pick(Reactions) :
          /\ (rep => (f = 0 \/ f >= t))
          /\ (~rep => f = 0 /\ n = 1)
          /\ ModCreateR("vmod", c, s, ps, "in", cap, TRUE, TRUE, t, FALSE, rep, f, IF rep THEN n ELSE 0, st, thr, ra[1], ra[2], ra[3])
          /\ ev' = [name |-> "ModCreate", ok |-> TRUE, signer |-> c, module |-> "vmod", svc |-> s,
                    provs |-> ps, input |-> "in", cap |-> cap, capok |-> TRUE, inok |-> TRUE,
                    timeout |-> t, super |-> FALSE, rep |-> rep, freq |-> f,
                    total |-> IF rep THEN n ELSE 0, state |-> st, thr |-> thr, id |-> nctx + 1,
                    rresp |-> ra[1], rstate |-> ra[2], rtgt |-> ra[3]]
    \/ On("Pause") /\ \E id \in DOMAIN ctx : LET c == ctx[id].cons IN
          /\ Pause(c, id)
          /\ ev' = [name |-> "Pause", ok |-> TRUE, signer |-> c, id |-> id]
    \/ On("Start") /\ \E id \in DOMAIN ctx : LET c == ctx[id].cons IN
          /\ Start(c, id)
          /\ ev' = [name |-> "Start", ok |-> TRUE, signer |-> c, id |-> id]
    \/ On("Kill") /\ \E id \in DOMAIN ctx : LET c == ctx[id].cons IN
          /\ ctx[id].state # "completed"      \* (kill is idempotent: a self-loop)
          /\ Kill(c, id)
          /\ ev' = [name |-> "Kill", ok |-> TRUE, signer |-> c, id |-> id]
    \/ On("ModPause") /\ \E id \in DOMAIN ctx : LET c == ctx[id].cons IN
          /\ ctx[id].module # "" /\ ModPause(c, id)
          /\ ev' = [name |-> "ModPause", ok |-> TRUE, signer |-> c, id |-> id]
    \/ On("ModStart") /\ \E id \in DOMAIN ctx : LET c == ctx[id].cons IN
          /\ ctx[id].module # "" /\ ModStart(c, id)
          /\ ev' = [name |-> "ModStart", ok |-> TRUE, signer |-> c, id |-> id]
    \/ On("ModKill") /\ \E id \in DOMAIN ctx : LET c == ctx[id].cons IN
          /\ ctx[id].module # "" /\ ctx[id].state # "completed" /\ ModKill(c, id)
          /\ ev' = [name |-> "ModKill", ok |-> TRUE, signer |-> c, id |-> id]
    \/ On("UpdateContext") /\ \E id \in DOMAIN ctx, ps \in Pick(ProvSeqs \cup {<<>>}),
             cap \in Pick(Caps \cup {0}), t \in Pick(Timeouts \cup {0}), f \in Pick(Freqs), n \in Pick(Totals \cup {0}) :
          LET c == ctx[id].cons IN
          /\ (t # 0 /\ f # 0 => f >= t)
          \* one group of fields per message (providers | cap | timeout and frequency | total): the
          \* code treats the groups independently; combinations are left to the random driver
          /\ Cardinality({g \in {1, 2, 3, 4} : CASE g = 1 -> ps # <<>> [] g = 2 -> cap # 0
                                               [] g = 3 -> (t # 0 \/ f # 0) [] g = 4 -> n # 0}) = 1
          /\ UpdateContext(c, id, ps, cap # 0, cap, TRUE, t, f, n)
          /\ ev' = [name |-> "UpdateContext", ok |-> TRUE, signer |-> c, id |-> id, provs |-> ps,
                    hasCap |-> cap # 0, cap |-> cap, capok |-> TRUE, timeout |-> t, freq |-> f, total |-> n]
    \/ On("Respond") /\ \E r \in actId, kind \in Pick(Kinds) : LET p == req[r].prov IN
          /\ Respond(p, r, kind, OutOf(r, kind))
          /\ ev' = [name |-> "Respond", ok |-> TRUE, signer |-> p, rid |-> r, kind |-> kind,
                    out |-> OutOf(r, kind)]
    \/ On("Withdraw") /\ \E o \in Pick(Signers), p \in Pick(Provs \cup {""}) :
          /\ WithdrawAmt(o, p) > 0
          /\ Withdraw(o, p)
          /\ ev' = [name |-> "Withdraw", ok |-> TRUE, signer |-> o, prov |-> p]
    \/ On("BankSend") /\ \E a \in Pick(Accts), b \in Pick(Accts), n \in Pick({1, 2}) :
          /\ a # b
          /\ BankSend(a, b, n)
          /\ ev' = [name |-> "BankSend", ok |-> TRUE, signer |-> a, to |-> b, amount |-> n]

ParamStep ==
    On("SetParams") /\ ParamGate /\ \E p \in Pick(ParamAlts) :
          /\ [p EXCEPT !.lax = params.lax] # params
          /\ SetParams(p)
          /\ ev' = [name |-> "SetParams", ok |-> TRUE, signer |-> "", params |-> p]

BlockStep ==
    \/ BeginEndBlock /\ ev' = [name |-> "BeginEndBlock", ok |-> TRUE, signer |-> ""]
    \/ \E id \in DOMAIN ctx : ExpireBatch(id) /\ ev' = [name |-> "ExpireBatch", ok |-> TRUE, signer |-> "", id |-> id]
    \/ Mid /\ ev' = [name |-> "Mid", ok |-> TRUE, signer |-> ""]
    \/ \E id \in DOMAIN ctx : StartBatch(id) /\ ev' = [name |-> "StartBatch", ok |-> TRUE, signer |-> "", id |-> id]
    \/ \E dt \in Dts : height < MaxHeight /\ EndBlock(dt) /\ ev' = [name |-> "EndBlock", ok |-> TRUE, signer |-> "", dt |-> dt]

\* zero-height preparation ends the behaviour: the chain stops there
PrepStep == WithPrep /\ PrepZeroHeight /\ ev' = [name |-> "PrepZeroHeight", ok |-> TRUE, signer |-> ""]

\* zero-height restart as one step (a configuration switches it on: WithRestart <- TRUE)
WithRestart == FALSE
RestartStep == WithRestart /\ PrepRestart(now) /\ ev' = [name |-> "Restart", ok |-> TRUE, signer |-> ""]

MCNext == /\ ev.name # "PrepZeroHeight"
          /\ (MsgStep \/ ParamStep \/ BlockStep \/ PrepStep \/ RestartStep)
          /\ hist' = IF ev'.name = "Restart" THEN HistRestart(ctx') ELSE HistNext

MCSpec == MCInit /\ [][MCNext]_pvars

\* every growing value is bounded
MCConstraint ==
    /\ height <= MaxHeight
    /\ (WithRestart => now <= InitNowVal + 2 * MaxHeight)     \* (restarts reset the height, not the clock)
    /\ \A id \in DOMAIN ctx : ctx[id].batch <= MaxBatch

\* the step outputs are not part of the state's identity
MCView == <<svars, hist>>

-----------------------------------------------------------------------------
(* properties as checked by TLC *)

P_C02 == [][Step_C02]_pvars
P_C03 == [][Step_C03]_pvars
P_C04 == [][Step_C04]_pvars
P_C05 == [][Step_C05]_pvars
P_C06 == [][Step_C06]_pvars
P_C07 == [][Step_C07]_pvars
P_C08 == [][Step_C08]_pvars
P_C09 == [][Step_C09]_pvars
P_C10 == [][Step_C10]_pvars
P_C11 == [][Step_C11]_pvars
P_C12 == [][Step_C12]_pvars
P_C13 == [][Step_C13]_pvars
P_C15 == [][Step_C15]_pvars
P_C16 == [][Step_C16]_pvars
P_C18 == [][Step_C18]_pvars
P_C19 == [][Step_C19]_pvars

-----------------------------------------------------------------------------
(* refinement: every step of Service is a step of the ledger specification (Ledger.tla), whose  *)
(* conservation laws are an inductive invariant discharged by Apalache for unbounded amounts    *)

RidU == {<<id, b, h, i>> : id \in 1..(MaxCtx + 1), b \in 1..(MaxBatch + 2), h \in 1..(MaxHeight + 1),
                           i \in 0..Cardinality(Provs)}
BndU == SvcNames \X Provs
AnAcct == CHOOSE a \in Accts : TRUE

L == INSTANCE Ledger WITH
        Accs <- Accts, Reqs <- RidU, Bnds <- BndU,
        lbal <- [a \in Accts |-> bal[a]],
        esc <- bal[REQ], depAcct <- bal[DEP], taxAcct <- bal[TAX], lsupply <- supply,
        pending <- actId,
        fee <- [r \in RidU |-> IF r \in DOMAIN req THEN req[r].fee ELSE 0],
        payer <- [r \in RidU |-> IF r \in DOMAIN req /\ r[1] \in DOMAIN ctx THEN ctx[r[1]].cons ELSE AnAcct],
        owed <- [a \in Accts |-> Get0(earned, a)],
        dep <- [k \in BndU |-> IF k \in DOMAIN bind THEN bind[k].dep ELSE 0]

\* ... and of the scheduling core (Scheduler.tla), whose structural invariant - C11's - Apalache discharges for
\* unbounded heights.  (For the families without nested keeper calls: a callback that acts on a context is
\* two scheduler steps in one.)
IdU == 1..(MaxCtx + 1)
CtxF(x, f(_), d) == IF x \in DOMAIN ctx THEN f(ctx[x]) ELSE d
Sch == INSTANCE Scheduler WITH
        Ids <- IdU, sh <- height, sphase <- phase, alive <- DOMAIN ctx,
        sst <- [x \in IdU |-> CtxF(x, LAMBDA c : c.state, "paused")],
        srep <- [x \in IdU |-> CtxF(x, LAMBDA c : c.rep, FALSE)],
        stimeout <- [x \in IdU |-> CtxF(x, LAMBDA c : c.timeout, 1)],
        sfreq <- [x \in IdU |-> CtxF(x, LAMBDA c : c.freq, 1)],
        stotal <- [x \in IdU |-> CtxF(x, LAMBDA c : c.total, 0)],
        sbatch <- [x \in IdU |-> CtxF(x, LAMBDA c : c.batch, 0)],
        newAt <- [x \in IdU |-> IF x \in DOMAIN newQH THEN newQH[x] ELSE -1],
        expAt <- [x \in IdU |-> IF x \in DOMAIN expQH THEN expQH[x] ELSE -1]
SchedulerInv == Sch!SchedInv
SchedulerRefined == [][Sch!SNext]_(Sch!svs)

LedgerInv == L!IndInv
LedgerRefined == [][L!LNext]_(L!lvars)

TypeOK ==
    /\ phase \in {"deliver", "expire", "start"}
    /\ \A a \in DOMAIN bal : bal[a] >= 0
    /\ supply >= 0

=============================================================================
