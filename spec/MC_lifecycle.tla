---------------------------- MODULE MC_lifecycle ----------------------------
(* request-context lifecycle: C08 C09 C10 C11 C12 C16 (and the money invariants on the way) *)
EXTENDS MCService

C_Accts == {"o1", "p1", "p2", "c1"}
C_Signers == {"o1"}
C_Provs == {"p1", "p2"}
C_Consumers == {"c1"}
C_Svcs == {"s1"}
C_InitDefs == {"s1"}
PrA == [price |-> 2, pt |-> <<>>, pv |-> <<>>]
PrB == [price |-> 3, pt |-> <<>>, pv |-> <<>>]
C_InitBinds == {[s |-> "s1", p |-> "p1", o |-> "o1", dep |-> 8, pr |-> PrA, qos |-> 1, avail |-> TRUE],
                [s |-> "s1", p |-> "p2", o |-> "o1", dep |-> 8, pr |-> PrB, qos |-> 2, avail |-> TRUE]}
C_InitBal == [a \in C_Accts |-> IF a = "c1" THEN 7 ELSE 0]
C_Params == [maxTimeout |-> 3, multiple |-> 2, minDeposit |-> 4, tax |-> 1, slash |-> 5, refundDelay |-> 2, lax |-> FALSE]
C_Prs == {PrA}
C_ProvSeqs == {<<"p1">>, <<"p1", "p2">>}
C_ModSvc == <<>>
C_Msgs == {"Call", "ModCreate", "Pause", "Start", "Kill", "UpdateContext", "Respond", "ModPause", "ModStart", "ModKill", "NoSuper"}
=============================================================================
