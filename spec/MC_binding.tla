----------------------------- MODULE MC_binding -----------------------------
(* service definitions and bindings: C03 C05 C14 C15 (deposits, ownership, minimum deposit) *)
EXTENDS MCService

C_Accts == {"o1", "o2", "p1", "p2"}
C_Signers == {"o1", "o2"}
C_Provs == {"p1", "p2"}
C_Consumers == {}
C_Svcs == {"s1"}
C_InitDefs == {"s1"}
Pr1 == [price |-> 1, pt |-> <<>>, pv |-> <<>>]
Pr3 == [price |-> 3, pt |-> <<>>, pv |-> <<>>]
C_InitBinds == {}
C_InitBal == [a \in C_Accts |-> IF a = "o1" THEN 6 ELSE IF a = "o2" THEN 4 ELSE 0]
C_Params == [maxTimeout |-> 2, multiple |-> 2, minDeposit |-> 4, tax |-> 1, slash |-> 5, refundDelay |-> 2, lax |-> FALSE]
C_Prs == {Pr1, Pr3}
C_ProvSeqs == {<<"p1">>}
C_ModSvc == <<>>
C_Msgs == {"Define", "Bind", "UpdateBinding", "Disable", "Enable", "RefundDeposit", "SetParams"}
\* governance: a higher minimum deposit, a lower multiple with a shorter refund lock
C_ParamAlts == {C_Params, [C_Params EXCEPT !.minDeposit = 6], [C_Params EXCEPT !.multiple = 1, !.refundDelay = 1]}
=============================================================================
