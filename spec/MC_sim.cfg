CONSTANTS
  Scale = 100
  FScale = 1000
  Defects = {}
  ModSvc <- C_ModSvc
  Accts <- C_Accts
  Signers <- C_Signers
  Provs <- C_Provs
  Consumers <- C_Consumers
  SvcNames <- C_Svcs
  InitDefs <- C_InitDefs
  InitBinds <- C_InitBinds
  InitBal <- C_InitBal
  InitNowVal <- SimNow
  Pick <- SimPick
  Params <- C_Params
  ParamAlts <- C_ParamAlts
  ParamGate <- SimParamGate
  Gate <- SimGate
  Reactions <- C_Reactions
  WithRestart <- SimWithRestart
  Prs <- C_Prs
  ProvSeqs <- C_ProvSeqs
  Msgs <- C_Msgs
  Deposits = {0, 5, 10, 24}
  QosSet = {1, 2}
  Caps = {2, 6}
  Timeouts = {1, 2}
  Freqs = {0, 2, 3}
  Totals = {1, 2, 3}
  Dts = {1, 2, 3}
  Thresholds = {1, 2}
  Kinds = {"valid", "bad", "none"}
  WithPrep = FALSE
  MaxHeight = 12
  MaxCtx = 3
  MaxBatch = 4
SPECIFICATION MCSpec
CONSTRAINT SimConstraint
CHECK_DEADLOCK FALSE
