----------------------------- MODULE KeysTrace -----------------------------
(***************************************************************************)
(* Binds Keys.tla to types/keys.go and types/invocation.go: every logged   *)
(* call of a real key builder / identifier function must return exactly    *)
(* the bytes the transcription gives for the same atoms, identifiers have  *)
(* their fixed length and split back into what they were built from, and   *)
(* distinct inputs of one function give distinct results.                  *)
(***************************************************************************)
EXTENDS Keys, Json

CONSTANT TraceFile

VARIABLES l, seen

Trace == ndJsonDeserialize(TraceFile)

Expected(x) ==
    LET a == x.a
        n == x.n
    IN CASE x.fn = "K01" -> K01(a.svc)
         [] x.fn = "K02" -> K02(a.svc, a.bprov)
         [] x.fn = "K03" -> K03(a.owner, a.svc, a.prov)
         [] x.fn = "K04" -> K04(a.prov)
         [] x.fn = "K05" -> K05(a.owner, a.prov)
         [] x.fn = "K06" -> K06(a.svc, a.bprov)
         [] x.fn = "K07" -> K07(a.owner)
         [] x.fn = "K08" -> K08(a.cid)
         [] x.fn = "K09" -> K09(a.cid, n.h)
         [] x.fn = "K10" -> K10(a.cid, n.h)
         [] x.fn = "K11" -> K11(a.cid)
         [] x.fn = "K12" -> K12(a.cid)
         [] x.fn = "K13" -> K13(a.rid)
         [] x.fn = "K14" -> K14(a.svc, a.bprov, n.exp, a.rid)
         [] x.fn = "K15" -> K15(a.rid)
         [] x.fn = "K16" -> K16(a.rid)
         [] x.fn = "K17" -> K17(a.bcons, a.svc, a.bprov)
         [] x.fn = "K18" -> K18(a.prov, a.denom)
         [] x.fn = "K19" -> K19(a.owner)
         [] x.fn = "P02" -> P02(a.svc)
         [] x.fn = "P03" -> P03(a.owner, a.svc)
         [] x.fn = "P05" -> P05(a.owner)
         [] x.fn = "P09" -> P09(n.h)
         [] x.fn = "P10" -> P10(n.h)
         [] x.fn = "P13" -> P13(a.cid, n.b)
         [] x.fn = "P14" -> P14(a.svc, a.bprov)
         [] x.fn = "P15" -> P15(a.cid, n.b)
         [] x.fn = "P16" -> P16(a.cid, n.b)
         [] x.fn = "P18" -> P18(a.prov)
         [] x.fn = "P19" -> P19(a.owner)
         [] x.fn = "CtxID" -> CtxID(a.hash, n.idx)
         [] x.fn = "ReqID" -> ReqID(a.cid, n.b, n.h, n.i)
         [] OTHER -> <<"unknown function">>

LineOK(x) ==
    /\ x.bytes = Expected(x)
    /\ (x.fn = "CtxID") => /\ Len(x.bytes) = 40 /\ ~x.err
                           /\ x.splita.hash = x.a.hash /\ x.split.idx = x.n.idx
    /\ (x.fn = "ReqID") => /\ Len(x.bytes) = 58 /\ ~x.err
                           /\ x.splita.cid = x.a.cid
                           /\ x.split.b = x.n.b /\ x.split.h = x.n.h /\ x.split.i = x.n.i
    \* distinct inputs give distinct results (within the logged calls of the same function)
    /\ \A y \in seen : (y.fn = x.fn /\ y.bytes = x.bytes) => (y.a = x.a /\ y.n = x.n)

Init == l = 0 /\ seen = {}
Next == /\ l < Len(Trace)
        /\ l' = l + 1
        /\ seen' = seen \cup {[fn |-> Trace[l + 1].fn, a |-> Trace[l + 1].a, n |-> Trace[l + 1].n, bytes |-> Trace[l + 1].bytes]}
        /\ (~LineOK(Trace[l + 1]) => PrintT(<<"KEYVIOL", l + 1, Trace[l + 1].fn>>))
        /\ (l + 1 = Len(Trace) => PrintT(<<"END", l + 1>>))
Spec == Init /\ [][Next]_<<l, seen>>
=============================================================================
