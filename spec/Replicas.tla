------------------------------ MODULE Replicas ------------------------------
(***************************************************************************)
(* C20, determinism: several replicas (separate processes) apply the same  *)
(* log of blocks and messages from the same starting state.  After every   *)
(* step each replica reports the digest of its consensus state (raw module *)
(* store, tracked balances, supply).  Replicas that have applied the same  *)
(* prefix must report the same digest.                                     *)
(*                                                                         *)
(* Line k of the trace carries, for every replica r, the k-th operation it *)
(* applied and the digest it reported: {"k": k, "op": {r: ..}, "dg": {r: ..}}. *)
(***************************************************************************)
EXTENDS Integers, Sequences, FiniteSets, TLC, Json

CONSTANT TraceFile

VARIABLES l,        \* lines consumed
          same,     \* pairs of replicas that have applied the same operations so far
          diverged  \* pairs that applied the same prefix but reported different digests

Trace == ndJsonDeserialize(TraceFile)

Replica == DOMAIN Trace[1].op
Pairs == {p \in Replica \X Replica : p[1] # p[2]}

Init == l = 0 /\ same = Pairs /\ diverged = {}

Next ==
    /\ l < Len(Trace)
    /\ l' = l + 1
    /\ LET x == Trace[l + 1] IN
       /\ same' = {p \in same : x.op[p[1]] = x.op[p[2]]}
       /\ diverged' = diverged \cup {p \in same' : x.dg[p[1]] # x.dg[p[2]]}
    /\ (diverged' # diverged => PrintT(<<"DIVERGED", l + 1, diverged'>>))
    /\ (l + 1 = Len(Trace) => PrintT(<<"END", l + 1>>))

Spec == Init /\ [][Next]_<<l, same, diverged>>

\* equal applied prefixes => equal digests
Deterministic == diverged = {}
=============================================================================
