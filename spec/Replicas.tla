------------------------------ MODULE Replicas ------------------------------
(***************************************************************************)
(* C20, determinism: several replicas (separate processes, and a second    *)
(* run inside one process) apply the same log of blocks and messages from  *)
(* the same starting state.  After every step each replica reports the     *)
(* digest of its consensus state (raw module store, tracked balances,      *)
(* supply).  Replicas that have applied the same prefix must report the    *)
(* same digest.                                                            *)
(***************************************************************************)
EXTENDS Integers, Sequences, FiniteSets, TLC, Json

CONSTANT TraceFile      \* ndjson: {"r": replica, "k": step index, "op": event name, "dg": digest}

VARIABLES l, log

Trace == ndJsonDeserialize(TraceFile)

\* log[r] = the sequence of <<op, digest>> the replica reported so far
Init == l = 0 /\ log = <<>>

Agree(lg) ==
    \A r1, r2 \in DOMAIN lg :
        \A k \in 1..(IF Len(lg[r1]) <= Len(lg[r2]) THEN Len(lg[r1]) ELSE Len(lg[r2])) :
            \* same applied prefix (same operations) => same digest
            (\A j \in 1..k : lg[r1][j][1] = lg[r2][j][1]) => lg[r1][k][2] = lg[r2][k][2]

Next ==
    /\ l < Len(Trace)
    /\ l' = l + 1
    /\ LET x == Trace[l + 1]
           old == IF x.r \in DOMAIN log THEN log[x.r] ELSE <<>>
       IN /\ Len(old) + 1 = x.k
          /\ log' = [r \in (DOMAIN log) \cup {x.r} |-> IF r = x.r THEN Append(old, <<x.op, x.dg>>) ELSE log[r]]
    /\ (l + 1 = Len(Trace) => PrintT(<<"END", l + 1>>))

Spec == Init /\ [][Next]_<<l, log>>

\* checked only at the end of the log (every replica has reported everything): cheap and complete
Deterministic == (l = Len(Trace)) => Agree(log)
=============================================================================
