------------------------------ MODULE MC_react ------------------------------
(* module-owned contexts whose owner pauses or kills them from inside its callbacks (re-entrancy):  *)
(* the response callback of a batch answered in full, the response callback at expiry, the state     *)
(* callback for a consumer out of funds.  C09 C10 C11 C12 C16.                                       *)
EXTENDS MCService

C_Accts == {"o1", "p1", "p2", "c1"}
C_Signers == {"o1"}
C_Provs == {"p1", "p2"}
C_Consumers == {"c1"}
C_Svcs == {"s1"}
C_InitDefs == {"s1"}
PrA == [price |-> 2, pt |-> <<>>, pv |-> <<>>]
PrB == [price |-> 3, pt |-> <<>>, pv |-> <<>>]
C_InitBinds == {[s |-> "s1", p |-> "p1", o |-> "o1", dep |-> 8, pr |-> PrA, qos |-> 1, avail |-> TRUE],
                [s |-> "s1", p |-> "p2", o |-> "o1", dep |-> 8, pr |-> PrB, qos |-> 1, avail |-> TRUE]}
C_InitBal == [a \in C_Accts |-> IF a = "c1" THEN 7 ELSE 0]
C_Params == [maxTimeout |-> 3, multiple |-> 2, minDeposit |-> 4, tax |-> 1, slash |-> 5, refundDelay |-> 2, lax |-> FALSE]
C_Prs == {PrA}
C_ProvSeqs == {<<"p1">>, <<"p1", "p2">>}
C_ModSvc == <<>>
C_Msgs == {"ModCreate", "ModPause", "ModStart", "ModKill", "Respond", "NoSuper"}
C_Reactions == {<<"", "", 0>>, <<"kill", "", 0>>, <<"pause", "", 0>>, <<"", "kill", 0>>, <<"pause", "kill", 0>>,
                <<"start", "", 0>>, <<"cap1", "pause", 0>>}
=============================================================================
