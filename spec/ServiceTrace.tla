---------------------------- MODULE ServiceTrace ----------------------------
(***************************************************************************)
(* Trace validation: the implementation's own states, projected from the   *)
(* raw store after every step, are fed to TLC; on every step              *)
(*   - the property formulas of ServiceProps are evaluated (verdicts),     *)
(*   - Conf checks that the step is a step of Service (conformance).       *)
(* Every line carries the event with its arguments and the full abstract   *)
(* state, so nothing is guessed and validation is linear in the trace.     *)
(* A line with event "reset" starts a new history.                         *)
(***************************************************************************)
EXTENDS ServiceProps, Json

CONSTANTS
    TraceFile,  \* ndjson file written by the harness
    Check       \* the property ids to evaluate

VARIABLES
    l,          \* position in the trace
    bad,        \* property ids violated by the step that led here
    conf,       \* whether that step conforms to the specification
    stopped     \* zero-height preparation has run in this history

tvars == <<pvars, l, bad, conf, stopped>>

Trace == ndJsonDeserialize(TraceFile)

RangeOf(s) == {s[i] : i \in DOMAIN s}

Pick(S, Test(_)) == CHOOSE x \in S : Test(x)

FnOf(s, Key(_), Val(_)) ==
    LET R == RangeOf(s) IN
    [k \in {Key(x) : x \in R} |-> Val(CHOOSE x \in R : Key(x) = k)]

PrOf(p) == [price |-> p.price,
            pt |-> [i \in DOMAIN p.pt |-> [s |-> p.pt[i].s, e |-> p.pt[i].e, d |-> p.pt[i].d]],
            pv |-> [i \in DOMAIN p.pv |-> [v |-> p.pv[i].v, d |-> p.pv[i].d]]]

CbOf(x) == IF x.kind = "resp"
           THEN [kind |-> "resp", id |-> x.id, outs |-> x.outs, err |-> x.err]
           ELSE IF x.kind = "react"
           THEN [kind |-> "react", id |-> x.id, op |-> x.cause, ok |-> ~x.err]
           ELSE [kind |-> "state", id |-> x.id, cause |-> x.cause]

T4(a) == <<a[1], a[2], a[3], a[4]>>

S_height(st)  == st.height
S_params(st)  == [maxTimeout |-> st.params.maxTimeout, multiple |-> st.params.multiple,
                  minDeposit |-> st.params.minDeposit, tax |-> st.params.tax,
                  slash |-> st.params.slash, refundDelay |-> st.params.refundDelay,
                  lax |-> st.params.lax]
S_defs(st)    == FnOf(st.defs, LAMBDA d : d.name, LAMBDA d : [author |-> d.author, dg |-> d.dg])
S_bind(st)    == FnOf(st.bind, LAMBDA b : <<b.svc, b.prov>>,
                      LAMBDA b : [owner |-> b.owner, dep |-> b.dep, pr |-> PrOf(b.pr), sp |-> PrOf(b.sp),
                                  qos |-> b.qos, avail |-> b.avail, dtime |-> b.dtime])
S_powner(st)  == FnOf(st.powner, LAMBDA x : x.p, LAMBDA x : x.o)
S_oprov(st)   == {<<x[1], x[2]>> : x \in RangeOf(st.oprov)}
S_obind(st)   == {<<x[1], x[2], x[3]>> : x \in RangeOf(st.obind)}
S_waddr(st)   == FnOf(st.waddr, LAMBDA x : x.o, LAMBDA x : x.w)
S_ctx(st)     == FnOf(st.ctx, LAMBDA c : c.id,
                      LAMBDA c : [svc |-> c.svc, provs |-> c.provs, cons |-> c.cons, input |-> c.input,
                                  cap |-> c.cap, timeout |-> c.timeout, super |-> c.super, rep |-> c.rep,
                                  freq |-> c.freq, total |-> c.total, batch |-> c.batch,
                                  reqCount |-> c.reqCount, respCount |-> c.respCount, bthr |-> c.bthr,
                                  bstate |-> c.bstate, state |-> c.state, thr |-> c.thr, module |-> c.module,
                                  rresp |-> c.rresp, rstate |-> c.rstate, rtgt |-> c.rtgt])
S_q(q)        == {<<x[1], x[2]>> : x \in RangeOf(q)}
S_qh(q)       == FnOf(q, LAMBDA x : x.id, LAMBDA x : x.h)
S_req(st)     == FnOf(st.req, LAMBDA r : T4(r.rid),
                      LAMBDA r : [ctx |-> r.ctx, batch |-> r.batch, prov |-> r.prov, fee |-> r.fee,
                                  rh |-> r.rh, exp |-> r.exp])
S_actId(st)   == {T4(x) : x \in RangeOf(st.actId)}
S_actBind(st) == {<<a.svc, a.prov, a.exp, T4(a.rid)>> : a \in RangeOf(st.actBind)}
S_resp(st)    == FnOf(st.resp, LAMBDA r : T4(r.rid),
                      LAMBDA r : [prov |-> r.prov, cons |-> r.cons, kind |-> r.kind, out |-> r.out,
                                  ctx |-> r.ctx, batch |-> r.batch])
S_vol(st)     == FnOf(st.vol, LAMBDA v : <<v.c, v.s, v.p>>, LAMBDA v : v.n)
S_ef(s)       == FnOf(s, LAMBDA x : x.k, LAMBDA x : x.n)

-----------------------------------------------------------------------------
(* conformance: the implementation step is a step of the specification *)

Rej(can) == ~can /\ UNCHANGED svars /\ cb' = <<>>

Conf ==
    LET e == ev' IN
    CASE e.name = "reset" -> TRUE
      [] e.name = "restore" -> TRUE
      [] e.name = "Obs" -> UNCHANGED svars
      [] e.name \in {"TxBegin", "TxCommit"} -> UNCHANGED svars /\ cb' = <<>>
      [] e.name = "TxAbort" -> TRUE
      [] e.name = "Genesis" -> UNCHANGED svars
      [] e.name = "PrepZeroHeight" -> e.ok /\ PrepZeroHeight
      [] e.name = "Restart" -> e.ok /\ stopped /\ Restart(now')
      [] e.name = "Define" ->
            IF e.ok THEN Define(e.signer, e.svc, e.dg) ELSE Rej(CanDefine(e.signer, e.svc))
      [] e.name = "Bind" ->
            IF e.ok THEN Bind(e.signer, e.svc, e.prov, e.deposit, e.dok, PrOf(e.pr), e.prok, e.qos)
            ELSE Rej(CanBind(e.signer, e.svc, e.prov, e.deposit, e.dok, PrOf(e.pr), e.prok, e.qos))
      [] e.name = "UpdateBinding" ->
            IF e.ok THEN UpdateBinding(e.signer, e.svc, e.prov, e.deposit, e.dok, e.hasPr, PrOf(e.pr), e.prok, e.qos)
            ELSE Rej(CanUpdateBinding(e.signer, e.svc, e.prov, e.deposit, e.dok, e.hasPr, PrOf(e.pr), e.prok, e.qos))
      [] e.name = "Disable" ->
            IF e.ok THEN Disable(e.signer, e.svc, e.prov) ELSE Rej(CanDisable(e.signer, e.svc, e.prov))
      [] e.name = "Enable" ->
            IF e.ok THEN Enable(e.signer, e.svc, e.prov, e.deposit, e.dok)
            ELSE Rej(CanEnable(e.signer, e.svc, e.prov, e.deposit, e.dok))
      [] e.name = "RefundDeposit" ->
            IF e.ok THEN RefundDeposit(e.signer, e.svc, e.prov) ELSE Rej(CanRefundDeposit(e.signer, e.svc, e.prov))
      [] e.name = "SetWithdrawAddr" ->
            IF e.ok THEN SetWithdrawAddr(e.signer, e.addr) ELSE Rej(CanSetWithdrawAddr(e.signer, e.addr))
      [] e.name = "Call" ->
            IF e.ok THEN /\ Call(e.signer, e.svc, e.provs, e.input, e.cap, e.capok, e.inok, e.timeout,
                                 e.super, e.rep, e.freq, e.total)
                         /\ e.id = nctx + 1
            ELSE Rej(CanCall(e.signer, e.svc, e.provs, e.cap, e.capok, e.inok, e.timeout))
      [] e.name = "ModCreate" ->
            IF e.ok THEN /\ ModCreateR(e.module, e.signer, e.svc, e.provs, e.input, e.cap, e.capok, e.inok,
                                      e.timeout, e.super, e.rep, e.freq, e.total, e.state, e.thr,
                                      e.rresp, e.rstate, e.rtgt)
                         /\ e.id = nctx + 1
            ELSE Rej(CanModCreate(e.module, e.signer, e.svc, e.provs, e.capok, e.inok, e.timeout, e.thr))
      [] e.name = "Pause" -> IF e.ok THEN Pause(e.signer, e.id) ELSE Rej(CanPause(e.signer, e.id))
      [] e.name = "Start" -> IF e.ok THEN Start(e.signer, e.id) ELSE Rej(CanStart(e.signer, e.id))
      [] e.name = "Kill"  -> IF e.ok THEN Kill(e.signer, e.id)  ELSE Rej(CanKill(e.signer, e.id))
      [] e.name = "ModPause" -> IF e.ok THEN ModPause(e.signer, e.id) ELSE Rej(CanModPause(e.signer, e.id))
      [] e.name = "ModStart" -> IF e.ok THEN ModStart(e.signer, e.id) ELSE Rej(CanModStart(e.signer, e.id))
      [] e.name = "ModKill"  -> IF e.ok THEN ModKill(e.signer, e.id)  ELSE Rej(CanModKill(e.signer, e.id))
      [] e.name = "UpdateContext" ->
            IF e.ok THEN UpdateContext(e.signer, e.id, e.provs, e.hasCap, e.cap, e.capok, e.timeout, e.freq, e.total)
            ELSE Rej(CanUpdateContext(e.signer, e.id, e.provs, e.hasCap, e.capok, e.timeout, e.freq, e.total))
      [] e.name = "ModUpdate" ->
            IF e.ok THEN ModUpdate(e.signer, e.id, e.provs, e.hasCap, e.cap, e.capok, e.timeout, e.freq, e.total, e.thr)
            ELSE Rej(CanModUpdate(e.signer, e.id, e.provs, e.hasCap, e.capok, e.timeout, e.freq, e.total, e.thr))
      [] e.name = "Respond" ->
            IF e.ok THEN Respond(e.signer, T4(e.rid), e.kind, e.out)
            ELSE Rej(CanRespond(e.signer, T4(e.rid), e.kind))
      [] e.name = "Withdraw" ->
            IF e.ok THEN Withdraw(e.signer, e.prov) ELSE Rej(CanWithdraw(e.signer, e.prov))
      [] e.name = "BankSend" ->
            IF e.ok THEN BankSend(e.signer, e.to, e.amount) ELSE Rej(CanBankSend(e.signer, e.to, e.amount))
      [] e.name = "SetParams" -> IF e.ok THEN SetParams(S_params([params |-> e.params]))
                                 ELSE Rej(CanSetParams(S_params([params |-> e.params])))
      [] e.name = "BeginEndBlock" -> BeginEndBlock
      [] e.name = "ExpireBatch" -> e.ok /\ ExpireBatch(e.id)
      [] e.name = "Mid" -> Mid
      [] e.name = "StartBatch" -> e.ok /\ StartBatch(e.id)
      [] e.name = "EndBlock" -> e.ok /\ EndBlock(e.dt)
      [] OTHER -> FALSE

-----------------------------------------------------------------------------
(* C17 (and the listing clause of C15): what each query must return, as a function of *)
(* the stored state.  An "Obs" event carries the answers of every gRPC method and     *)
(* every legacy route (digests of the records returned) and truth tables (digests of  *)
(* the stored records, from the raw store scan).                                      *)

DgOf(tbl, Key(_), k) == LET hits == {x \in RangeOf(tbl) : Key(x) = k}
                        IN IF hits = {} THEN "MISSING" ELSE (CHOOSE x \in hits : TRUE).dg
BindKey(x) == <<x.svc, x.prov>>
RidKey(x) == T4(x.rid)

\* the truth tables list exactly the records of the abstract state
TruthBound(o) ==
    /\ {x.svc : x \in RangeOf(o.tdefs)} = DOMAIN defs
    /\ {BindKey(x) : x \in RangeOf(o.tbind)} = DOMAIN bind
    /\ {x.id : x \in RangeOf(o.tctx)} = DOMAIN ctx
    /\ {RidKey(x) : x \in RangeOf(o.treq)} = {r \in DOMAIN req : r[1] \in DOMAIN ctx}
    /\ {RidKey(x) : x \in RangeOf(o.tresp)} = DOMAIN resp

\* a single answer
One(x) == <<x>>

\* the answer is a list of exactly the wanted digests, each once
ExactlyList(got, want) == Len(got) = Cardinality(want) /\ RangeOf(got) = want

WantOK(o, q) ==
    LET a == q.arg
        g == q.grpc
    IN CASE q.q = "definition" ->
              g = One(IF a.svc \in DOMAIN defs THEN DgOf(o.tdefs, LAMBDA x : x.svc, a.svc) ELSE "ERR")
         [] q.q = "binding" ->
              g = One(IF <<a.svc, a.prov>> \in DOMAIN bind THEN DgOf(o.tbind, BindKey, <<a.svc, a.prov>>) ELSE "ERR")
         [] q.q = "bindings" ->
              ExactlyList(g, {DgOf(o.tbind, BindKey, k) :
                                k \in {k \in DOMAIN bind : k[1] = a.svc /\ (a.owner = "" \/ bind[k].owner = a.owner)}})
         [] q.q = "withdraw_address" ->
              g = One(IF a.owner \in DOMAIN waddr THEN waddr[a.owner] ELSE a.owner)
         [] q.q = "fees" -> g = One(ToString(Get0(earned, a.prov)))
         [] q.q = "context" ->
              g = One(IF a.id \in DOMAIN ctx THEN DgOf(o.tctx, LAMBDA x : x.id, a.id) ELSE o.empty)
         [] q.q = "request" ->
              g = One(IF T4(a.rid) \in DOMAIN req /\ a.rid[1] \in DOMAIN ctx
                      THEN DgOf(o.treq, RidKey, T4(a.rid)) ELSE o.empty)
         [] q.q = "request_by_events" ->
              \* what an off-chain client recovers from the identifier alone: the stored request, if there is one
              IF T4(a.rid) \in DOMAIN req /\ a.rid[1] \in DOMAIN ctx
              THEN g = One(DgOf(o.treq, RidKey, T4(a.rid)))
              ELSE Len(g) = 1 /\ g[1] \notin {x.dg : x \in RangeOf(o.treq)}
         [] q.q = "response" ->
              g = One(IF T4(a.rid) \in DOMAIN resp THEN DgOf(o.tresp, RidKey, T4(a.rid)) ELSE o.empty)
         [] q.q = "requests" ->
              \* the pending requests of a binding
              ExactlyList(g, {DgOf(o.treq, RidKey, x[4]) : x \in {x \in actBind : x[1] = a.svc /\ x[2] = a.prov}})
         [] q.q = "requests_by_ctx" ->
              ExactlyList(g, {DgOf(o.treq, RidKey, r) : r \in {r \in DOMAIN req : r[1] = a.id /\ r[2] = a.batch}})
         [] q.q = "responses" ->
              ExactlyList(g, {DgOf(o.tresp, RidKey, r) : r \in {r \in DOMAIN resp : r[1] = a.id /\ r[2] = a.batch}})
         [] q.q = "params" -> g = One(o.tparams)
         [] q.q = "schema" ->
              g = One(IF a.name \in {x.svc : x \in RangeOf(o.tschema)}
                      THEN DgOf(o.tschema, LAMBDA x : x.svc, a.name) ELSE "ERR")
         [] OTHER -> FALSE

\* C18 on the read paths: the identifiers carried by the requests a listing returns are pairwise
\* distinct, are identifiers of stored requests, and belong to the subject asked for
NoDup(s) == \A i, j \in DOMAIN s : i # j => s[i] # s[j]
IdsOfListingOK(q, s) ==
    /\ NoDup(s)
    /\ \A i \in DOMAIN s :
          LET r == T4(s[i]) IN
          /\ r \in DOMAIN req
          /\ (q.q = "requests" => req[r].prov = q.arg.prov /\ r[1] \in DOMAIN ctx /\ ctx[r[1]].svc = q.arg.svc)
          /\ (q.q = "requests_by_ctx" => r[1] = q.arg.id /\ r[2] = q.arg.batch)
QueryIdsOK ==
    (ev'.name = "Obs") =>
        \A i \in DOMAIN ev'.obs.queries :
            LET q == ev'.obs.queries[i] IN
            /\ q.q \in {"requests", "requests_by_ctx"} => (IdsOfListingOK(q, q.rids) /\ IdsOfListingOK(q, q.lrids))
            \* a request is found again from its identifier (context, issue height, position in the issue event)
            /\ q.q = "request_by_events" => WantOK(ev'.obs, q)

\* the prefix scans behind the listing queries return exactly the records of their subject (C18's last clause)
IsScan(q) == q.q \in {"bindings", "requests", "requests_by_ctx", "responses"}

\* queries that list bindings (C15's listing clause)
IsListing(q) == q.q = "bindings"

QueriesOK(only(_)) ==
    (ev'.name = "Obs") =>
        LET o == ev'.obs IN
        /\ TruthBound(o)
        /\ \A i \in DOMAIN o.queries :
              only(o.queries[i]) => (WantOK(o, o.queries[i]) /\ o.queries[i].leg = o.queries[i].grpc)

-----------------------------------------------------------------------------
(* C19: the exported genesis validates, survives the JSON round trip, and a fresh      *)
(* application that imports it holds the same definitions, bindings (with their price   *)
(* terms rebuilt), ownership indexes, withdrawal addresses, contexts and parameters     *)

GenesisOK ==
    (ev'.name = "Genesis") =>
        LET g == ev'.gen
            i == g.imp
        IN /\ g.valid /\ g.jsonok /\ g.jsonsame /\ g.moduleok /\ g.importok /\ g.reexportok
           /\ g.ndefs = Cardinality(DOMAIN defs) /\ g.nbind = Cardinality(DOMAIN bind)
           /\ g.nwaddr = Cardinality(DOMAIN waddr) /\ g.nctx = Cardinality(DOMAIN ctx)
           /\ S_defs(i) = defs
           /\ S_bind(i) = bind                      \* including the rebuilt stored price terms
           /\ S_powner(i) = powner /\ S_oprov(i) = oprov /\ S_obind(i) = obind
           /\ S_waddr(i) = waddr
           /\ S_ctx(i) = ctx
           /\ S_params(i) = params
           /\ i.anom = <<>>

\* C15 on the imported state: the ownership indexes and stored price terms of a fresh
\* application that imported the genesis are consistent with its bindings
ImportedIndexesOK ==
    (ev'.name = "Genesis" /\ ev'.gen.importok) =>
        LET i == ev'.gen.imp
            b == S_bind(i)
            po == S_powner(i)
        IN \* a definition never changes, a binding keeps its service, provider and owner - also across an export
           /\ S_defs(i) = defs
           /\ DOMAIN b = DOMAIN bind /\ \A k \in DOMAIN b : b[k].owner = bind[k].owner
           /\ \A k \in DOMAIN b : b[k].sp = b[k].pr /\ k[2] \in DOMAIN po /\ po[k[2]] = b[k].owner
           /\ S_obind(i) = {<<b[k].owner, k[1], k[2]>> : k \in DOMAIN b}
           /\ S_oprov(i) = {<<po[p], p>> : p \in DOMAIN po}

-----------------------------------------------------------------------------
(* verdicts: the property formulas, evaluated on the implementation's step *)

\* nothing the projection could not represent (ambiguous or malformed keys, invalid records)
NoAnomaly(id) == \A i \in DOMAIN Trace[l + 1].st.anom :
                    ~(\E k \in 1..3 : SubSeq(Trace[l + 1].st.anom[i], 1, 3) = id)

\* zero-height preparation stops the chain: the states after it are not states of a running
\* chain, and only C19 and C20 speak about them
AfterStop == stopped'

Holds(p) ==
    IF AfterStop /\ p = "C15" THEN ImportedIndexesOK ELSE
    \* the preparation itself does not touch deposits: custody and collateral still hold right after it
    IF AfterStop /\ p = "C03" THEN /\ (ev'.name = "PrepZeroHeight" => Inv_C03')
                                     \* the deposits a fresh chain takes over are the ones in custody
                                     \* ... each still locked as it was: available, or disabled since the same instant
                                     /\ ((ev'.name = "Genesis" /\ ev'.gen.importok) =>
                                            LET ib == S_bind(ev'.gen.imp) IN
                                            /\ SumDeps(ib) = bal[DEP]
                                            /\ \A k \in (DOMAIN ib) \cap (DOMAIN bind) :
                                                  ib[k].avail = bind[k].avail /\ ib[k].dtime = bind[k].dtime) ELSE
    IF AfterStop /\ p = "C14" THEN (ev'.name = "PrepZeroHeight" => Inv_C14') ELSE
    IF AfterStop /\ p = "C09" THEN (ev'.name = "PrepZeroHeight" => Prep_C09) ELSE
    IF AfterStop /\ p \notin {"C19", "C20"} THEN TRUE ELSE
    CASE p = "C01" -> Inv_C01' /\ Step_C01
      [] p = "C02" -> Step_C02
      [] p = "C03" -> Inv_C03' /\ Step_C03
      [] p = "C04" -> Step_C04
      [] p = "C05" -> Step_C05
      [] p = "C06" -> Step_C06
      [] p = "C07" -> Step_C07
      [] p = "C08" -> Inv_C08' /\ Step_C08
      [] p = "C09" -> Step_C09
      [] p = "C10" -> Inv_C10' /\ Step_C10
      [] p = "C11" -> Inv_C11' /\ Step_C11
      [] p = "C12" -> Inv_C12' /\ Step_C12
      [] p = "C13" -> Inv_C13' /\ Step_C13
      [] p = "C14" -> Inv_C14'
      [] p = "C15" -> Inv_C15' /\ Step_C15 /\ NoAnomaly("C15") /\ QueriesOK(IsListing)
      [] p = "C16" -> Inv_C16' /\ Step_C16
      [] p = "C17" -> QueriesOK(LAMBDA q : TRUE)
      [] p = "C18" -> NoAnomaly("C18") /\ Step_C18 /\ QueryIdsOK /\ QueriesOK(IsScan)
      [] p = "C19" -> Step_C19 /\ GenesisOK /\ (ev'.name = "Restart" => ev'.ok)
      [] p = "C20" -> Step_C20
      [] OTHER -> TRUE

TraceInit ==
    LET st == Trace[1].st IN
    /\ l = 1
    /\ height = st.height /\ now = st.now /\ phase = st.phase /\ params = S_params(st)
    /\ bal = st.bal /\ supply = st.supply
    /\ defs = S_defs(st) /\ bind = S_bind(st) /\ powner = S_powner(st)
    /\ oprov = S_oprov(st) /\ obind = S_obind(st) /\ waddr = S_waddr(st)
    /\ nctx = st.nctx /\ ctx = S_ctx(st)
    /\ newQ = S_q(st.newQ) /\ newQH = S_qh(st.newQH) /\ expQ = S_q(st.expQ) /\ expQH = S_qh(st.expQH)
    /\ req = S_req(st) /\ actId = S_actId(st) /\ actBind = S_actBind(st) /\ resp = S_resp(st)
    /\ vol = S_vol(st) /\ earned = S_ef(st.earned) /\ oearned = S_ef(st.oearned)
    /\ cb = <<>>
    /\ ev = Trace[1].ev
    /\ hist = HistUnknown(S_ctx(st))
    /\ bad = {} /\ conf = TRUE /\ stopped = FALSE

TraceNext ==
    /\ l < Len(Trace)
    /\ l' = l + 1
    /\ LET st == Trace[l + 1].st IN
       /\ height' = st.height /\ now' = st.now /\ phase' = st.phase /\ params' = S_params(st)
       /\ bal' = st.bal /\ supply' = st.supply
       /\ defs' = S_defs(st) /\ bind' = S_bind(st) /\ powner' = S_powner(st)
       /\ oprov' = S_oprov(st) /\ obind' = S_obind(st) /\ waddr' = S_waddr(st)
       /\ nctx' = st.nctx /\ ctx' = S_ctx(st)
       /\ newQ' = S_q(st.newQ) /\ newQH' = S_qh(st.newQH) /\ expQ' = S_q(st.expQ) /\ expQH' = S_qh(st.expQH)
       /\ req' = S_req(st) /\ actId' = S_actId(st) /\ actBind' = S_actBind(st) /\ resp' = S_resp(st)
       /\ vol' = S_vol(st) /\ earned' = S_ef(st.earned) /\ oearned' = S_ef(st.oearned)
    /\ cb' = [i \in DOMAIN Trace[l + 1].cb |-> CbOf(Trace[l + 1].cb[i])]
    /\ ev' = Trace[l + 1].ev
    /\ hist' = IF ev'.name = "reset" THEN HistInit
               ELSE IF ev'.name \in {"restore", "TxAbort"} THEN HistUnknown(ctx')
               ELSE IF ev'.name = "Restart" THEN HistRestart(ctx') ELSE HistNext
    /\ stopped' = IF ev'.name \in {"reset", "restore"} \/ (ev'.name = "Restart" /\ ev'.ok) THEN FALSE
                  ELSE (stopped \/ ev'.name = "PrepZeroHeight")
    /\ bad' = {p \in Check : ~Holds(p)}
    /\ conf' = Conf
    /\ (bad' # {} => PrintT(<<"VIOL", l + 1, bad'>>))
    /\ (~conf' => PrintT(<<"NONCONF", l + 1, ev'.name>>))
    /\ (l + 1 = Len(Trace) => PrintT(<<"END", l + 1>>))

\* the only module service the harness ever registers (scenario histories with reset.modsvc)
NoModSvc == [msvc |-> "p3"]

TraceSpec == TraceInit /\ [][TraceNext]_tvars

=============================================================================
