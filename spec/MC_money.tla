------------------------------ MODULE MC_money ------------------------------
(* fees, escrow, slashing, earnings: C01 C02 C04 C06 C07 C13 *)
EXTENDS MCService

C_Accts == {"o1", "o2", "p1", "p2", "c1", "c2"}
C_Signers == {"o1", "o2"}
C_Provs == {"p1", "p2"}
C_Consumers == {"c1", "c2"}
C_Svcs == {"s1"}
C_InitDefs == {"s1"}
\* p1: price 3, one tenth after the first response (below one unit: floored at 1)
PrP1 == [price |-> 3, pt |-> <<>>, pv |-> <<[v |-> 1, d |-> 1]>>]
\* p2: price 0 with a time promotion (still one unit)
PrP2 == [price |-> 0, pt |-> <<[s |-> 1, e |-> 2, d |-> 5]>>, pv |-> <<>>]
C_InitBinds == {[s |-> "s1", p |-> "p1", o |-> "o1", dep |-> 8, pr |-> PrP1, qos |-> 1, avail |-> TRUE],
                [s |-> "s1", p |-> "p2", o |-> "o2", dep |-> 5, pr |-> PrP2, qos |-> 1, avail |-> TRUE]}
C_InitBal == [a \in C_Accts |-> IF a = "c1" THEN 5 ELSE IF a = "c2" THEN 1 ELSE 0]
C_Params == [maxTimeout |-> 2, multiple |-> 2, minDeposit |-> 4, tax |-> 1, slash |-> 5, refundDelay |-> 2, lax |-> FALSE]
C_Prs == {PrP1}
C_ProvSeqs == {<<"p1">>, <<"p2", "p1">>}
C_ModSvc == <<>>
C_Msgs == {"Call", "Respond", "Withdraw", "SetWithdrawAddr", "Pause", "Start"}
=============================================================================
