------------------------------- MODULE MC_keys -------------------------------
(***************************************************************************)
(* Exhaustive check of Keys over a small alphabet.                         *)
(*   AddrLens = {2}: addresses of one fixed length - everything must hold. *)
(*   AddrLens = {1, 2}: variable-length addresses - TLC reports which keys *)
(*   and scans become ambiguous (finding D8).                              *)
(***************************************************************************)
EXTENDS Keys

CONSTANTS AddrLens, Group

SeqsOf(A, lens) == UNION {[1..n -> A] : n \in lens}

Addr  == SeqsOf({0, 1}, AddrLens)          \* address bytes may be zero
Name  == SeqsOf({1, 2}, {1, 2})            \* service names and denominations never contain 0x00
Bech  == SeqsOf({1, 2}, {1, 2})            \* neither does bech32 text
Cid   == SeqsOf({0, 1}, {2})               \* context ids have a fixed length
Ints  == {0, 1, 256}
Rid   == {ReqID(c, b, h, i) : c \in Cid, b \in {0, 1}, h \in {1}, i \in {0, 1}}

VARIABLE dummy
Init == dummy = 0
Next == UNCHANGED dummy

\* distinct arguments give distinct keys
Inj_strings ==
    /\ \A s1, s2 \in Name, p1, p2 \in Bech : K02(s1, p1) = K02(s2, p2) => s1 = s2 /\ p1 = p2
    /\ \A c1, c2 \in Bech, s1, s2 \in Name, p1, p2 \in Bech :
          K17(c1, s1, p1) = K17(c2, s2, p2) => c1 = c2 /\ s1 = s2 /\ p1 = p2
Inj_active ==
    \A s1, s2 \in Name, p1, p2 \in Bech, e1, e2 \in {1, 256}, r1, r2 \in {ReqID(c, 1, 1, 0) : c \in Cid} :
          K14(s1, p1, e1, r1) = K14(s2, p2, e2, r2) => s1 = s2 /\ p1 = p2 /\ e1 = e2 /\ r1 = r2
Inj_queue ==
    \A c1, c2 \in Cid, h1, h2 \in Ints : K09(c1, h1) = K09(c2, h2) => c1 = c2 /\ h1 = h2
Inj_ids ==
    /\ \A h1, h2 \in Cid, i1, i2 \in Ints : CtxID(h1, i1) = CtxID(h2, i2) => h1 = h2 /\ i1 = i2
    /\ \A c1, c2 \in Cid, b1, b2 \in Ints, h1, h2 \in {1, 256}, i1, i2 \in {0, 1} :
          ReqID(c1, b1, h1, i1) = ReqID(c2, b2, h2, i2) => c1 = c2 /\ b1 = b2 /\ h1 = h2 /\ i1 = i2
Inj_ownerBinding ==
    \A o1, o2 \in Addr, s1, s2 \in Name, p1, p2 \in Addr :
          K03(o1, s1, p1) = K03(o2, s2, p2) => o1 = o2 /\ s1 = s2 /\ p1 = p2
Inj_ownerProvider ==
    \A o1, o2 \in Addr, p1, p2 \in Addr : K05(o1, p1) = K05(o2, p2) => o1 = o2 /\ p1 = p2
Inj_earned ==
    \A p1, p2 \in Addr, d1, d2 \in Name : K18(p1, d1) = K18(p2, d2) => p1 = p2 /\ d1 = d2

\* every prefix scan selects exactly the records of its subject
Scan_bindings == \A s, s2 \in Name, p \in Bech : IsPrefix(P02(s), K02(s2, p)) <=> s2 = s
Scan_activeByBinding ==
    \A s, s2 \in Name, p, p2 \in Bech, r \in {ReqID(c, 1, 1, 0) : c \in Cid} :
          IsPrefix(P14(s, p), K14(s2, p2, 1, r)) <=> (s2 = s /\ p2 = p)
Scan_batch ==
    \A c, c2 \in Cid, b, b2 \in Ints, i \in {0, 1} :
          /\ IsPrefix(P13(c, b), K13(ReqID(c2, b2, 1, i))) <=> (c2 = c /\ b2 = b)
          /\ IsPrefix(P15(c, b), K15(ReqID(c2, b2, 1, i))) <=> (c2 = c /\ b2 = b)
          /\ IsPrefix(P16(c, b), K16(ReqID(c2, b2, 1, i))) <=> (c2 = c /\ b2 = b)
Scan_queue == \A c \in Cid, h, h2 \in Ints : IsPrefix(P09(h), K09(c, h2)) <=> h2 = h
Scan_ownerBindings ==
    \A o, o2 \in Addr, s, s2 \in Name, p \in Addr : IsPrefix(P03(o, s), K03(o2, s2, p)) <=> (o2 = o /\ s2 = s)
Scan_ownerProviders == \A o, o2 \in Addr, p \in Addr : IsPrefix(P05(o), K05(o2, p)) <=> o2 = o
Scan_earned == \A p, p2 \in Addr, d \in Name : IsPrefix(P18(p), K18(p2, d)) <=> p2 = p
Scan_ownerEarned == \A o, o2 \in Addr : IsPrefix(P19(o), K19(o2)) <=> o2 = o

\* layouts that do not depend on the length of an address
AddressFree ==
    /\ Inj_strings /\ Inj_active /\ Inj_queue /\ Inj_ids
    /\ Scan_bindings /\ Scan_activeByBinding /\ Scan_batch /\ Scan_queue
\* layouts that concatenate raw address bytes
AddressBound ==
    /\ Inj_ownerBinding /\ Inj_ownerProvider /\ Inj_earned
    /\ Scan_ownerBindings /\ Scan_ownerProviders /\ Scan_earned /\ Scan_ownerEarned

KeysOK == (Group = "free" => AddressFree) /\ (Group = "bound" => AddressBound)
=============================================================================
