----------------------------- MODULE Scheduler -----------------------------
(***************************************************************************)
(* The scheduling core of the service module, and nothing else: request     *)
(* contexts, their lifecycle state, their cadence terms, and the one event   *)
(* each may have pending in the new-batch queue and in the expiry queue.     *)
(* Heights, timeouts, frequencies and totals are unbounded integers; the     *)
(* set of context identifiers is a finite parameter.                         *)
(*                                                                         *)
(* Service.tla refines this specification (TLC, PROPERTY SchedulerRefined    *)
(* on the bounded families without nested keeper calls); the structural part *)
(* of C11 - a running context has exactly one pending event, no event lies   *)
(* in the past, the end of a block leaves nothing of that block behind - is  *)
(* an INDUCTIVE invariant here, discharged by Apalache for unbounded heights *)
(* (bin/props.py scheduler_inductive).  Money is abstracted: whether a       *)
(* consumer can pay, whether providers are eligible, is the environment's    *)
(* choice.  The actions are constraints on the next state (see Ledger.tla);  *)
(* the fields of a context that does not exist mean nothing and are left     *)
(* unconstrained.                                                            *)
(***************************************************************************)
EXTENDS Integers, FiniteSets

CONSTANTS
    \* @type: Set(CID);
    Ids

VARIABLES
    \* @type: Int;
    sh,         \* current height
    \* @type: Str;
    sphase,     \* "deliver" | "expire" | "start"
    \* @type: Set(CID);
    alive,      \* the contexts that exist
    \* @type: CID -> Str;
    sst,        \* "running" | "paused" | "completed"
    \* @type: CID -> Bool;
    srep,       \* repeated
    \* @type: CID -> Int;
    stimeout,
    \* @type: CID -> Int;
    sfreq,
    \* @type: CID -> Int;
    stotal,     \* -1: unlimited
    \* @type: CID -> Int;
    sbatch,
    \* @type: CID -> Int;
    newAt,      \* height of the context's entry in the new-batch queue, -1: none
    \* @type: CID -> Int;
    expAt       \* height of its entry in the expiry queue, -1: none

svs == <<sh, sphase, alive, sst, srep, stimeout, sfreq, stotal, sbatch, newAt, expAt>>

None == -1

Typed ==
    /\ sst' \in [Ids -> {"running", "paused", "completed"}] /\ srep' \in [Ids -> BOOLEAN]
    /\ stimeout' \in [Ids -> Int] /\ sfreq' \in [Ids -> Int] /\ stotal' \in [Ids -> Int] /\ sbatch' \in [Ids -> Int]
    /\ newAt' \in [Ids -> Int] /\ expAt' \in [Ids -> Int]

\* @type: (CID) => Bool;
TermsSame(x) == srep'[x] = srep[x] /\ stimeout'[x] = stimeout[x] /\ sfreq'[x] = sfreq[x] /\ stotal'[x] = stotal[x]
\* @type: (CID) => Bool;
AllSame(x) == /\ TermsSame(x) /\ sst'[x] = sst[x] /\ sbatch'[x] = sbatch[x]
              /\ newAt'[x] = newAt[x] /\ expAt'[x] = expAt[x]
\* every context that exists afterwards, except id, is what it was
\* @type: (CID) => Bool;
OthersSame(id) == \A x \in alive' : x # id => AllSame(x)
NoneChanged == \A x \in alive' : AllSame(x)

\* @type: (CID) => Bool;
Finished(id) == ~srep[id] \/ (stotal[id] >= 0 /\ sbatch[id] >= stotal[id])

SInit ==
    /\ sh = 1 /\ sphase = "deliver" /\ alive = {}
    /\ sst = [x \in Ids |-> "paused"] /\ srep = [x \in Ids |-> FALSE]
    /\ stimeout = [x \in Ids |-> 1] /\ sfreq = [x \in Ids |-> 1] /\ stotal = [x \in Ids |-> 0]
    /\ sbatch = [x \in Ids |-> 0] /\ newAt = [x \in Ids |-> None] /\ expAt = [x \in Ids |-> None]

\* a call (by a consumer, or by a module: then possibly created paused)
\* @type: (CID) => Bool;
Create(id) ==
    /\ sphase = "deliver" /\ id \notin alive
    /\ alive' = alive \cup {id}
    /\ Typed /\ OthersSame(id)
    /\ sst'[id] \in {"running", "paused"}
    /\ stimeout'[id] >= 1
    /\ (srep'[id] => sfreq'[id] >= stimeout'[id])
    /\ sbatch'[id] = 0 /\ expAt'[id] = None
    /\ newAt'[id] = IF sst'[id] = "running" THEN sh ELSE None
    /\ UNCHANGED <<sh, sphase>>

\* pause, start, kill, update: the messages and the keeper entry points
\* @type: (CID) => Bool;
Pause(id) ==
    /\ sphase = "deliver" /\ id \in alive /\ srep[id] /\ sst[id] = "running"
    /\ UNCHANGED <<sh, sphase, alive>>
    /\ Typed /\ OthersSame(id)
    /\ sst'[id] = "paused"
    /\ TermsSame(id) /\ sbatch'[id] = sbatch[id] /\ newAt'[id] = newAt[id] /\ expAt'[id] = expAt[id]

\* @type: (CID) => Bool;
Start(id) ==
    /\ sphase = "deliver" /\ id \in alive /\ sst[id] = "paused"
    /\ UNCHANGED <<sh, sphase, alive>>
    /\ Typed /\ OthersSame(id)
    /\ sst'[id] = "running"
    /\ newAt'[id] = IF newAt[id] = None /\ expAt[id] = None THEN sh ELSE newAt[id]
    /\ TermsSame(id) /\ sbatch'[id] = sbatch[id] /\ expAt'[id] = expAt[id]

\* @type: (CID) => Bool;
Kill(id) ==
    /\ sphase = "deliver" /\ id \in alive /\ srep[id]
    /\ UNCHANGED <<sh, sphase, alive>>
    /\ Typed /\ OthersSame(id)
    /\ sst'[id] = "completed"
    /\ TermsSame(id) /\ sbatch'[id] = sbatch[id] /\ newAt'[id] = newAt[id] /\ expAt'[id] = expAt[id]

\* @type: (CID) => Bool;
Update(id) ==
    /\ sphase = "deliver" /\ id \in alive /\ sst[id] # "completed"
    /\ UNCHANGED <<sh, sphase, alive>>
    /\ Typed /\ OthersSame(id)
    /\ sst'[id] = sst[id] /\ srep'[id] = srep[id] /\ sbatch'[id] = sbatch[id]
    /\ newAt'[id] = newAt[id] /\ expAt'[id] = expAt[id]
    /\ stimeout'[id] >= 1 /\ sfreq'[id] >= stimeout'[id]

BeginEndBlock ==
    /\ sphase = "deliver" /\ sphase' = "expire"
    /\ UNCHANGED <<sh, alive>>
    /\ Typed /\ NoneChanged

\* the expiry of a batch: the context goes, or waits for its next batch, or (paused, killed) just waits
\* @type: (CID) => Bool;
Expire(id) ==
    /\ sphase = "expire" /\ id \in alive /\ expAt[id] = sh
    /\ LET gone  == sst[id] = "completed" \/ Finished(id)
           again == sst[id] = "running" /\ ~Finished(id)
       IN /\ alive' = IF gone THEN alive \ {id} ELSE alive
          /\ Typed /\ OthersSame(id)
          /\ ~gone =>
                /\ expAt'[id] = None
                /\ newAt'[id] = IF again THEN sh - stimeout[id] + sfreq[id] ELSE newAt[id]
                /\ TermsSame(id) /\ sst'[id] = sst[id] /\ sbatch'[id] = sbatch[id]
    /\ UNCHANGED <<sh, sphase>>

Mid ==
    /\ sphase = "expire" /\ \A x \in alive : expAt[x] # sh
    /\ sphase' = "start"
    /\ UNCHANGED <<sh, alive>>
    /\ Typed /\ NoneChanged

\* a due entry of the new-batch queue is handled: nothing for a context that is not running, the end of one
\* that has had all its batches, otherwise a batch (issued or skipped) or - no funds - the pause
\* @type: (CID) => Bool;
StartB(id) ==
    /\ sphase = "start" /\ id \in alive /\ newAt[id] = sh
    /\ LET done == sst[id] = "running" /\ sbatch[id] > 0 /\ Finished(id) IN
       /\ alive' = IF done THEN alive \ {id} ELSE alive
       /\ Typed /\ OthersSame(id)
       /\ ~done =>
             /\ newAt'[id] = None /\ TermsSame(id)
             /\ \/ /\ sst[id] # "running"
                   /\ sst'[id] = sst[id] /\ sbatch'[id] = sbatch[id] /\ expAt'[id] = expAt[id]
                \/ /\ sst[id] = "running"
                   /\ \/ /\ sbatch'[id] = sbatch[id] + 1 /\ expAt'[id] = sh + stimeout[id] /\ sst'[id] = sst[id]
                      \/ /\ sst'[id] = "paused" /\ sbatch'[id] = sbatch[id] /\ expAt'[id] = expAt[id]
    /\ UNCHANGED <<sh, sphase>>

EndBlock ==
    /\ sphase = "start" /\ \A x \in alive : newAt[x] # sh
    /\ sphase' = "deliver" /\ sh' = sh + 1
    /\ UNCHANGED <<alive>>
    /\ Typed /\ NoneChanged

\* a new chain from a zero-height export: every context paused, both queues empty, height 1 again
Restart ==
    /\ sphase = "deliver"
    /\ sh' = 1
    /\ Typed
    /\ \A x \in alive : /\ sst'[x] = "paused" /\ newAt'[x] = None /\ expAt'[x] = None
                        /\ TermsSame(x) /\ sbatch'[x] = sbatch[x]
    /\ UNCHANGED <<sphase, alive>>

SNext ==
    \/ \E id \in Ids : Create(id) \/ Pause(id) \/ Start(id) \/ Kill(id) \/ Update(id) \/ Expire(id) \/ StartB(id)
    \/ BeginEndBlock \/ Mid \/ EndBlock \/ Restart

-----------------------------------------------------------------------------
(* C11, the structural part, as one inductive invariant *)

SchedInv ==
    /\ sphase \in {"deliver", "expire", "start"}
    /\ sh >= 1
    /\ \A x \in alive :
          /\ sst[x] \in {"running", "paused", "completed"}
          /\ stimeout[x] >= 1
          /\ (srep[x] => sfreq[x] >= stimeout[x])
          \* no event in the past; in the start phase the expiries of this height are all behind
          /\ (newAt[x] # None => newAt[x] >= sh)
          /\ (expAt[x] # None => expAt[x] >= sh)
          /\ (sphase = "start" => expAt[x] # sh)
          \* never both, and exactly one while running
          /\ ~(newAt[x] # None /\ expAt[x] # None)
          /\ (sst[x] = "running" => (newAt[x] # None \/ expAt[x] # None))

SIndInit ==
    /\ sh \in Int /\ sphase \in {"deliver", "expire", "start"} /\ alive \in SUBSET Ids
    /\ sst \in [Ids -> {"running", "paused", "completed"}] /\ srep \in [Ids -> BOOLEAN]
    /\ stimeout \in [Ids -> Int] /\ sfreq \in [Ids -> Int] /\ stotal \in [Ids -> Int] /\ sbatch \in [Ids -> Int]
    /\ newAt \in [Ids -> Int] /\ expAt \in [Ids -> Int]
    /\ SchedInv

SConstInit == Ids = {"x1_OF_CID", "x2_OF_CID", "x3_OF_CID"}
=============================================================================
