------------------------------- MODULE Service -------------------------------
(***************************************************************************)
(* Explicit specification of the irismod/service module.                  *)
(*                                                                         *)
(* One action per critical section of the code:                           *)
(*   - the 14 message handlers of handler.go and the keeper, each atomic,   *)
(*   - the keeper entry points another module uses (Mod actions),           *)
(*   - EndBlocker (abci.go) split into its sub-steps                       *)
(*       BeginEndBlock, ExpireBatch(id)*, Mid, StartBatch(id)*, EndBlock.  *)
(*                                                                         *)
(* Every action A(args) has the shape  CanA(args) /\ <effects>  where      *)
(* CanA is a state predicate: the message succeeds iff CanA holds.  The    *)
(* trace specification uses  ~CanA /\ UNCHANGED  for rejected messages.    *)
(*                                                                         *)
(* The specification models what the code does, including its quirks       *)
(* (idempotent kill, update of a one-shot context, both queue pointer      *)
(* tables, both pending-request indexes, stored price terms next to the    *)
(* published ones).  Deviations of the as-found code from the intended     *)
(* behaviour are behind the constant Defects.                              *)
(*                                                                         *)
(* All amounts are integers of the base denomination.  Discounts are       *)
(* integers over Scale, tax and slash fraction integers over FScale.       *)
(***************************************************************************)
EXTENDS Integers, Sequences, FiniteSets, TLC

CONSTANTS
    Scale,      \* discounts are n/Scale, 0 < n < Scale
    FScale,     \* tax rate and slash fraction are n/FScale
    Defects,    \* subset of {"D1","D2","D3","D4","D9","D12","D13"}: as-found behaviour switches
    ModSvc      \* function: reserved (module) service name -> its provider account

VARIABLES
    height,     \* current block height
    now,        \* current block time (seconds)
    phase,      \* "deliver" | "expire" | "start"
    params,     \* [maxTimeout, multiple, minDeposit, tax, slash, refundDelay, lax]
    bal,        \* account -> balance (ordinary accounts and "DEP","REQ","TAX")
    supply,     \* total supply of the base denomination
    defs,       \* service name -> [author, dg]
    bind,       \* <<svc,prov>> -> [owner, dep, pr, sp, qos, avail, dtime]
    powner,     \* provider -> owner                         (0x04)
    oprov,      \* set of <<owner, provider>>                (0x05)
    obind,      \* set of <<owner, svc, provider>>           (0x03)
    waddr,      \* owner -> withdrawal address               (0x07)
    nctx,       \* number of contexts ever created (context ids are 1..nctx)
    ctx,        \* id -> context record                      (0x08)
    newQ,       \* set of <<height, id>>                     (0x10)
    newQH,      \* id -> height                              (0x12)
    expQ,       \* set of <<height, id>>                     (0x09)
    expQH,      \* id -> height                              (0x11)
    req,        \* rid -> [ctx, batch, prov, fee, rh, exp]   (0x13), rid = <<id,batch,height,idx>>
    actId,      \* set of rid                                (0x15)
    actBind,    \* set of <<svc, prov, exp, rid>>            (0x14)
    resp,       \* rid -> [prov, cons, kind, out, ctx, batch](0x16)
    vol,        \* <<cons, svc, prov>> -> responses delivered(0x17)
    earned,     \* provider -> unwithdrawn earnings (> 0)    (0x18)
    oearned,    \* owner -> unwithdrawn earnings (> 0)       (0x19)
    cb          \* module callbacks performed by the last step, in order (step output)

vars == <<height, now, phase, params, bal, supply, defs, bind, powner, oprov, obind,
          waddr, nctx, ctx, newQ, newQH, expQ, expQH, req, actId, actBind, resp, vol,
          earned, oearned, cb>>

\* everything except the step output
svars == <<height, now, phase, params, bal, supply, defs, bind, powner, oprov, obind,
           waddr, nctx, ctx, newQ, newQH, expQ, expQH, req, actId, actBind, resp, vol,
           earned, oearned>>

DEP == "DEP"
REQ == "REQ"
TAX == "TAX"
ModuleAccts == {DEP, REQ, TAX}

-----------------------------------------------------------------------------
(* generic helpers *)

Max(a, b) == IF a >= b THEN a ELSE b
Min(a, b) == IF a <= b THEN a ELSE b

Put(f, k, v)  == [x \in (DOMAIN f) \cup {k} |-> IF x = k THEN v ELSE f[x]]
Drop(f, K)    == [x \in (DOMAIN f) \ K |-> f[x]]
Get0(f, k)    == IF k \in DOMAIN f THEN f[k] ELSE 0
\* partial functions into positive amounts: records with amount 0 do not exist
AddTo(f, k, n) == IF n = 0 THEN f ELSE Put(f, k, Get0(f, k) + n)
SetOrDrop(f, k, n) == IF n = 0 THEN Drop(f, {k}) ELSE Put(f, k, n)

\* sum of f over the set S.  (Over a sequence of S's elements, by index: the textbook recursion on
\* S \ {CHOOSE ...} nests TLC's lazy set differences and takes time exponential in |S| - fine for the
\* model's handful of records, hopeless for a trace with a hundred bindings.)
SX == INSTANCE SequencesExt
RECURSIVE SumIdx(_, _, _)
SumIdx(f, s, i) == IF i = 0 THEN 0 ELSE f[s[i]] + SumIdx(f, s, i - 1)
SumOver(f, S) == LET s == SX!SetToSeq(S) IN SumIdx(f, s, Len(s))

RECURSIVE SumSeq(_)
SumSeq(s) == IF s = <<>> THEN 0 ELSE Head(s) + SumSeq(Tail(s))

Range(s) == {s[i] : i \in DOMAIN s}

Move(b, from, to, n) == [b EXCEPT ![from] = @ - n, ![to] = @ + n]

-----------------------------------------------------------------------------
(* pricing: keeper/invocation.go GetPrice, types/binding.go GetDiscountBy*  *)

\* pr = [price, pt, pv];  pt = seq of [s, e, d];  pv = seq of [v, d]
DiscT(pr, t) ==
    LET hits == {i \in DOMAIN pr.pt : pr.pt[i].s <= t /\ t < pr.pt[i].e}
    IN IF hits = {} THEN Scale
       ELSE pr.pt[CHOOSE i \in hits : \A j \in hits : i <= j].d

\* the loop of GetDiscountByVolume, transcribed
RECURSIVE DiscVLoop(_, _, _)
DiscVLoop(pv, v, i) ==
    IF i > Len(pv) THEN Scale
    ELSE IF v < pv[i].v THEN (IF i = 1 THEN Scale ELSE pv[i-1].d)
    ELSE IF i = Len(pv) THEN pv[i].d
    ELSE DiscVLoop(pv, v, i + 1)
DiscV(pr, v) == DiscVLoop(pr.pv, v, 1)

\* never less than one unit
PriceOf(pr, t, v) == Max(1, (pr.price * DiscT(pr, t) * DiscV(pr, v)) \div (Scale * Scale))
\* as found (D2): the total charged uses the value before the floor at one unit
RawPriceOf(pr, t, v) == (pr.price * DiscT(pr, t) * DiscV(pr, v)) \div (Scale * Scale)

\* types/binding.go ValidatePricing
PricingRulesOK(pr) ==
    /\ \A i \in DOMAIN pr.pt :
          /\ pr.pt[i].e > pr.pt[i].s
          /\ (i > 1 => pr.pt[i].s >= pr.pt[i-1].e)
    /\ \A i \in DOMAIN pr.pv : i > 1 => pr.pv[i].v >= pr.pv[i-1].v

\* keeper/binding.go getMinDeposit
MinDep(pr) == Max(params.minDeposit, pr.price * params.multiple)

TaxOf(fee)   == (fee * params.tax) \div FScale
SlashOf(dep) == (dep * params.slash) \div FScale

-----------------------------------------------------------------------------
(* keys and small accessors *)

BK(s, p) == <<s, p>>
HasBind(s, p) == BK(s, p) \in DOMAIN bind

ReqsOf(id, b)  == {r \in DOMAIN req  : r[1] = id /\ r[2] = b}     \* prefix scan of 0x13
RespsOf(id, b) == {r \in DOMAIN resp : r[1] = id /\ r[2] = b}     \* prefix scan of 0x16
ActOf(id, b)   == {r \in actId       : r[1] = id /\ r[2] = b}     \* prefix scan of 0x15

\* non-empty outputs of the responses of a batch, in key order (keeper GetResponseOutputs)
RECURSIVE SortRids(_)
SortRids(S) == IF S = {} THEN <<>>
               ELSE LET m == CHOOSE x \in S : \A y \in S : x[3] < y[3] \/ (x[3] = y[3] /\ x[4] <= y[4])
                    IN <<m>> \o SortRids(S \ {m})
OutputsOf(rs, id, b) ==
    LET ids == SortRids({r \in DOMAIN rs : r[1] = id /\ r[2] = b /\ rs[r].out # ""})
    IN [i \in DOMAIN ids |-> rs[ids[i]].out]

RespCb(id, b, outs, thr) == [kind |-> "resp", id |-> id, outs |-> outs, err |-> Len(outs) < thr]
StateCb(id, cause)       == [kind |-> "state", id |-> id, cause |-> cause]
\* the owning module answered a callback by calling the keeper for its context (op), with this outcome
ReactCb(id, op, ok)      == [kind |-> "react", id |-> id, op |-> op, ok |-> ok]

-----------------------------------------------------------------------------
(* Definitions *)

CanDefine(a, s) == phase = "deliver" /\ s \notin DOMAIN defs

Define(a, s, dg) ==
    /\ CanDefine(a, s)
    /\ defs' = Put(defs, s, [author |-> a, dg |-> dg])
    /\ cb' = <<>>
    /\ UNCHANGED <<height, now, phase, params, bal, supply, bind, powner, oprov, obind, waddr,
                   nctx, ctx, newQ, newQH, expQ, expQH, req, actId, actBind, resp, vol,
                   earned, oearned>>

-----------------------------------------------------------------------------
(* Bindings: keeper/binding.go *)

\* dok: the deposit is exactly one coin of the base denomination (validateDeposit)
\* prok: the pricing text parses and names a known token (ParsePricing)
CanBind(o, s, p, d, dok, pr, prok, q) ==
    /\ phase = "deliver"
    /\ s \notin DOMAIN ModSvc
    /\ s \in DOMAIN defs
    /\ ~HasBind(s, p)
    /\ (p \in DOMAIN powner => powner[p] = o)
    /\ dok
    /\ q <= params.maxTimeout
    /\ prok /\ PricingRulesOK(pr)
    /\ d >= MinDep(pr)
    /\ bal[o] >= d

Bind(o, s, p, d, dok, pr, prok, q) ==
    /\ CanBind(o, s, p, d, dok, pr, prok, q)
    /\ bal' = Move(bal, o, DEP, d)
    /\ bind' = Put(bind, BK(s, p), [owner |-> o, dep |-> d, pr |-> pr, sp |-> pr, qos |-> q,
                                   avail |-> TRUE, dtime |-> 0])
    /\ obind' = obind \cup {<<o, s, p>>}
    /\ powner' = IF p \in DOMAIN powner THEN powner ELSE Put(powner, p, o)
    /\ oprov' = IF p \in DOMAIN powner THEN oprov ELSE oprov \cup {<<o, p>>}
    /\ cb' = <<>>
    /\ UNCHANGED <<height, now, phase, params, supply, defs, waddr, nctx, ctx, newQ, newQH, expQ,
                   expQH, req, actId, actBind, resp, vol, earned, oearned>>

\* d = 0: no deposit given; hasPr = FALSE: no pricing given; q = 0: keep
UpdNewDep(b, d) == b.dep + d
UpdChecked(b, d, hasPr, q) == b.avail /\ (q # 0 \/ d # 0 \/ hasPr)
UpdMinPr(b, hasPr, pr) == IF hasPr /\ "D3" \notin Defects THEN pr ELSE b.sp

CanUpdateBinding(o, s, p, d, dok, hasPr, pr, prok, q) ==
    /\ phase = "deliver"
    /\ HasBind(s, p)
    /\ LET b == bind[BK(s, p)] IN
       /\ b.owner = o
       /\ (q # 0 => q <= params.maxTimeout)
       /\ (d # 0 => dok)
       /\ (hasPr => prok /\ PricingRulesOK(pr))
       /\ (UpdChecked(b, d, hasPr, q) => UpdNewDep(b, d) >= MinDep(UpdMinPr(b, hasPr, pr)))
       /\ bal[o] >= d

UpdateBinding(o, s, p, d, dok, hasPr, pr, prok, q) ==
    /\ CanUpdateBinding(o, s, p, d, dok, hasPr, pr, prok, q)
    /\ LET b == bind[BK(s, p)] IN
       /\ bal' = Move(bal, o, DEP, d)
       /\ bind' = [bind EXCEPT ![BK(s, p)] =
                      [b EXCEPT !.dep = b.dep + d,
                                !.qos = IF q # 0 THEN q ELSE b.qos,
                                !.pr  = IF hasPr THEN pr ELSE b.pr,
                                !.sp  = IF hasPr THEN pr ELSE b.sp]]
    /\ cb' = <<>>
    /\ UNCHANGED <<height, now, phase, params, supply, defs, powner, oprov, obind, waddr, nctx,
                   ctx, newQ, newQH, expQ, expQH, req, actId, actBind, resp, vol, earned, oearned>>

CanDisable(o, s, p) ==
    /\ phase = "deliver"
    /\ HasBind(s, p)
    /\ bind[BK(s, p)].owner = o
    /\ bind[BK(s, p)].avail

Disable(o, s, p) ==
    /\ CanDisable(o, s, p)
    /\ bind' = [bind EXCEPT ![BK(s, p)].avail = FALSE, ![BK(s, p)].dtime = now]
    /\ cb' = <<>>
    /\ UNCHANGED <<height, now, phase, params, bal, supply, defs, powner, oprov, obind, waddr,
                   nctx, ctx, newQ, newQH, expQ, expQH, req, actId, actBind, resp, vol,
                   earned, oearned>>

CanEnable(o, s, p, d, dok) ==
    /\ phase = "deliver"
    /\ HasBind(s, p)
    /\ LET b == bind[BK(s, p)] IN
       /\ b.owner = o
       /\ ~b.avail
       /\ (d # 0 => dok)
       /\ b.dep + d >= MinDep(b.sp)
       /\ bal[o] >= d

Enable(o, s, p, d, dok) ==
    /\ CanEnable(o, s, p, d, dok)
    /\ bal' = Move(bal, o, DEP, d)
    /\ bind' = [bind EXCEPT ![BK(s, p)].dep = @ + d, ![BK(s, p)].avail = TRUE,
                            ![BK(s, p)].dtime = 0]
    /\ cb' = <<>>
    /\ UNCHANGED <<height, now, phase, params, supply, defs, powner, oprov, obind, waddr, nctx,
                   ctx, newQ, newQH, expQ, expQH, req, actId, actBind, resp, vol, earned, oearned>>

CanRefundDeposit(o, s, p) ==
    /\ phase = "deliver"
    /\ HasBind(s, p)
    /\ LET b == bind[BK(s, p)] IN
       /\ b.owner = o
       /\ ~b.avail
       /\ b.dep # 0
       /\ now >= b.dtime + params.refundDelay
       /\ bal[DEP] >= b.dep

RefundDeposit(o, s, p) ==
    /\ CanRefundDeposit(o, s, p)
    /\ bal' = Move(bal, DEP, o, bind[BK(s, p)].dep)
    /\ bind' = [bind EXCEPT ![BK(s, p)].dep = 0]
    /\ cb' = <<>>
    /\ UNCHANGED <<height, now, phase, params, supply, defs, powner, oprov, obind, waddr, nctx,
                   ctx, newQ, newQH, expQ, expQH, req, actId, actBind, resp, vol, earned, oearned>>

CanSetWithdrawAddr(o, w) == phase = "deliver"

SetWithdrawAddr(o, w) ==
    /\ CanSetWithdrawAddr(o, w)
    /\ waddr' = Put(waddr, o, w)
    /\ cb' = <<>>
    /\ UNCHANGED <<height, now, phase, params, bal, supply, defs, bind, powner, oprov, obind,
                   nctx, ctx, newQ, newQH, expQ, expQH, req, actId, actBind, resp, vol,
                   earned, oearned>>

-----------------------------------------------------------------------------
(* Slash: keeper/invocation.go Slash, as an operator on the binding table *)

SlashedBind(bd, k) ==
    LET b == bd[k]
        amt == SlashOf(b.dep)
        nd == b.dep - amt
        off == b.avail /\ nd < MinDep(b.sp)
    IN [bd EXCEPT ![k] = [b EXCEPT !.dep = nd,
                                   !.avail = IF off THEN FALSE ELSE b.avail,
                                   !.dtime = IF off THEN now ELSE b.dtime]]
SlashAmt(bd, k) == SlashOf(bd[k].dep)

-----------------------------------------------------------------------------
(* Request contexts: keeper/invocation.go *)

NewCtxR(s, ps, c, input, cap, t, super, rep, f, n, st, thr, mod, rr, rs, rt) ==

    [svc |-> s, provs |-> ps, cons |-> c, input |-> input, cap |-> cap, timeout |-> t,
     super |-> super, rep |-> rep,
     freq  |-> IF rep THEN (IF f = 0 THEN t ELSE f) ELSE 0,
     total |-> IF rep THEN n ELSE 0,
     batch |-> 0, reqCount |-> 0, respCount |-> 0, bthr |-> thr, bstate |-> "completed",
     state |-> st, thr |-> thr, module |-> mod,
     \* what the owning module does from inside its response / state callback
     \* ("" | "pause" | "kill" | "start" | "cap1") and to which context (0: the one the callback is about):
     \* state of the (test) module, kept with the context it belongs to
     rresp |-> rr, rstate |-> rs, rtgt |-> rt]

NewCtx(s, ps, c, input, cap, t, super, rep, f, n, st, thr, mod) ==
    NewCtxR(s, ps, c, input, cap, t, super, rep, f, n, st, thr, mod, "", "", 0)

\* capok: the fee cap is exactly one coin of the base denomination
\* inok: the input satisfies the input schema
CanCreate(s, capok, inok, t) ==
    /\ s \in DOMAIN defs
    /\ inok
    /\ capok
    /\ t <= params.maxTimeout

CreateEffects(id, rec) ==
    /\ nctx' = nctx + 1
    /\ ctx' = Put(ctx, id, rec)
    /\ IF rec.state = "running"
       THEN newQ' = newQ \cup {<<height, id>>} /\ newQH' = Put(newQH, id, height)
       ELSE UNCHANGED <<newQ, newQH>>

CanCall(c, s, ps, cap, capok, inok, t) ==
    /\ phase = "deliver"
    /\ s \notin DOMAIN ModSvc
    /\ CanCreate(s, capok, inok, t)

Call(c, s, ps, input, cap, capok, inok, t, super, rep, f, n) ==
    /\ CanCall(c, s, ps, cap, capok, inok, t)
    /\ CreateEffects(nctx + 1, NewCtx(s, ps, c, input, cap, t, super, rep, f, n, "running", 0, ""))
    /\ cb' = <<>>
    /\ UNCHANGED <<height, now, phase, params, bal, supply, defs, bind, powner, oprov, obind,
                   waddr, expQ, expQH, req, actId, actBind, resp, vol, earned, oearned>>

\* keeper entry point used by another module (module name mod): only for a module that has registered
\* both its response and its state callback
FullModules == {"vmod"}
CanModCreate(mod, c, s, ps, capok, inok, t, thr) ==
    /\ phase = "deliver"
    /\ mod \in FullModules
    /\ thr >= 1 /\ thr <= Len(ps)
    /\ CanCreate(s, capok, inok, t)

ModCreateR(mod, c, s, ps, input, cap, capok, inok, t, super, rep, f, n, st, thr, rr, rs, rt) ==
    /\ CanModCreate(mod, c, s, ps, capok, inok, t, thr)
    /\ CreateEffects(nctx + 1, NewCtxR(s, ps, c, input, cap, t, super, rep, f, n, st, thr, mod, rr, rs, rt))
    /\ cb' = <<>>
    /\ UNCHANGED <<height, now, phase, params, bal, supply, defs, bind, powner, oprov, obind,
                   waddr, expQ, expQH, req, actId, actBind, resp, vol, earned, oearned>>

ModCreate(mod, c, s, ps, input, cap, capok, inok, t, super, rep, f, n, st, thr) ==
    ModCreateR(mod, c, s, ps, input, cap, capok, inok, t, super, rep, f, n, st, thr, "", "", 0)

\* Re-entrancy: from inside a callback the owning module may call the keeper again - pause, kill, start
\* or update (here: lower the fee cap to one unit) the context the callback is about, or another one.
\* The callback is made after the step's own change to the context has been recorded (the batch
\* completed, the context paused); the module's call is an ordinary keeper call against the state at
\* that point (Nest), and what it does stays done.  (As found - D13 - the caller of the response
\* callback wrote its own copy of the context back afterwards, undoing the module's call.)
\*   cx, nq, nqh: contexts and new-batch queue at the moment of the callback; eqh: expiry pointers;
\*   cons: the consumer the module acts for; t: the context it acts on
NestGuard(c, op) ==
    CASE op = "pause" -> c.rep /\ c.state = "running"
      [] op = "kill"  -> c.rep
      [] op = "start" -> c.state = "paused"
      [] op = "cap1"  -> c.state # "completed" /\ c.freq >= c.timeout
      [] OTHER -> FALSE
NestOK(cx, cons, t, op) ==
    /\ t \in DOMAIN cx
    /\ (cx[t].module # "" => cx[t].cons = cons)
    /\ NestGuard(cx[t], op)
NestCtx(c, op) ==
    CASE op = "pause" -> [c EXCEPT !.state = "paused"]
      [] op = "kill"  -> [c EXCEPT !.state = "completed"]
      [] op = "start" -> [c EXCEPT !.state = "running"]
      [] op = "cap1"  -> [c EXCEPT !.cap = 1]
      [] OTHER -> c
Nest(cx, nq, nqh, eqh, cons, t, op) ==
    IF op = "" \/ ~NestOK(cx, cons, t, op)
    THEN [cx |-> cx, nq |-> nq, nqh |-> nqh, ok |-> FALSE]
    ELSE LET queue == op = "start" /\ t \notin DOMAIN eqh /\ t \notin DOMAIN nqh
         IN [cx  |-> [cx EXCEPT ![t] = NestCtx(cx[t], op)],
             nq  |-> IF queue THEN nq \cup {<<height, t>>} ELSE nq,
             nqh |-> IF queue THEN Put(nqh, t, height) ELSE nqh,
             ok  |-> TRUE]
\* the context a reaction of context id is aimed at
TgtOf(c, id) == IF c.rtgt = 0 THEN id ELSE c.rtgt
NestCbs(t, op, ok) == IF op = "" THEN <<>> ELSE <<ReactCb(t, op, ok)>>

\* CheckAuthority(..., checkModule): handler path checks the module, keeper path does not
AuthMsg(c, id) == id \in DOMAIN ctx /\ ctx[id].cons = c /\ ctx[id].module = ""
AuthMod(c, id) == id \in DOMAIN ctx /\ (ctx[id].module # "" => ctx[id].cons = c)

PauseGuard(id) == ctx[id].rep /\ ctx[id].state = "running"
CanPause(c, id)    == phase = "deliver" /\ AuthMsg(c, id) /\ PauseGuard(id)
CanModPause(c, id) == phase = "deliver" /\ AuthMod(c, id) /\ PauseGuard(id)

PauseEffects(id) ==
    /\ ctx' = [ctx EXCEPT ![id].state = "paused"]
    /\ cb' = <<>>
    /\ UNCHANGED <<height, now, phase, params, bal, supply, defs, bind, powner, oprov, obind,
                   waddr, nctx, newQ, newQH, expQ, expQH, req, actId, actBind, resp, vol,
                   earned, oearned>>
Pause(c, id)    == CanPause(c, id) /\ PauseEffects(id)
ModPause(c, id) == CanModPause(c, id) /\ PauseEffects(id)

StartGuard(id) == ctx[id].state = "paused"
CanStart(c, id)    == phase = "deliver" /\ AuthMsg(c, id) /\ StartGuard(id)
CanModStart(c, id) == phase = "deliver" /\ AuthMod(c, id) /\ StartGuard(id)

StartEffects(id) ==
    /\ ctx' = [ctx EXCEPT ![id].state = "running"]
    /\ IF id \notin DOMAIN expQH /\ id \notin DOMAIN newQH
       THEN newQ' = newQ \cup {<<height, id>>} /\ newQH' = Put(newQH, id, height)
       ELSE UNCHANGED <<newQ, newQH>>
    /\ cb' = <<>>
    /\ UNCHANGED <<height, now, phase, params, bal, supply, defs, bind, powner, oprov, obind,
                   waddr, nctx, expQ, expQH, req, actId, actBind, resp, vol, earned, oearned>>
Start(c, id)    == CanStart(c, id) /\ StartEffects(id)
ModStart(c, id) == CanModStart(c, id) /\ StartEffects(id)

KillGuard(id) == ctx[id].rep
CanKill(c, id)    == phase = "deliver" /\ AuthMsg(c, id) /\ KillGuard(id)
CanModKill(c, id) == phase = "deliver" /\ AuthMod(c, id) /\ KillGuard(id)

KillEffects(id) ==
    /\ ctx' = [ctx EXCEPT ![id].state = "completed"]
    /\ cb' = <<>>
    /\ UNCHANGED <<height, now, phase, params, bal, supply, defs, bind, powner, oprov, obind,
                   waddr, nctx, newQ, newQH, expQ, expQH, req, actId, actBind, resp, vol,
                   earned, oearned>>
Kill(c, id)    == CanKill(c, id) /\ KillEffects(id)
ModKill(c, id) == CanModKill(c, id) /\ KillEffects(id)

\* ps = <<>>: keep; cap = 0 /\ ~hasCap: keep; t = 0: keep; f = 0: keep; n = 0: keep; thr = 0: keep
UpdT(id, t) == IF t = 0 THEN ctx[id].timeout ELSE t
UpdF(id, f) == IF f = 0 THEN ctx[id].freq ELSE f
UpdGuard(id, ps, hasCap, capok, t, f, n, thr) ==
    /\ ctx[id].state # "completed"
    /\ (ctx[id].module # "" =>
           LET th == IF thr = 0 THEN ctx[id].thr ELSE thr
               pp == IF ps = <<>> THEN ctx[id].provs ELSE ps
           IN th <= Len(pp))
    /\ (hasCap => capok)
    /\ t <= params.maxTimeout
    /\ UpdF(id, f) >= UpdT(id, t)
    /\ ~(n >= 1 /\ n < ctx[id].batch)
CanUpdateContext(c, id, ps, hasCap, capok, t, f, n) ==
    phase = "deliver" /\ AuthMsg(c, id) /\ UpdGuard(id, ps, hasCap, capok, t, f, n, 0)
CanModUpdate(c, id, ps, hasCap, capok, t, f, n, thr) ==
    phase = "deliver" /\ AuthMod(c, id) /\ UpdGuard(id, ps, hasCap, capok, t, f, n, thr)

UpdEffects(id, ps, hasCap, cap, t, f, n, thr) ==
    /\ ctx' = [ctx EXCEPT ![id] =
                 [@ EXCEPT !.provs   = IF ps = <<>> THEN @ ELSE ps,
                           !.cap     = IF hasCap THEN cap ELSE @,
                           !.timeout = UpdT(id, t),
                           !.freq    = UpdF(id, f),
                           !.total   = IF n # 0 THEN n ELSE @,
                           !.thr     = IF ctx[id].module # "" /\ thr > 0 THEN thr ELSE @]]
    /\ cb' = <<>>
    /\ UNCHANGED <<height, now, phase, params, bal, supply, defs, bind, powner, oprov, obind,
                   waddr, nctx, newQ, newQH, expQ, expQH, req, actId, actBind, resp, vol,
                   earned, oearned>>
UpdateContext(c, id, ps, hasCap, cap, capok, t, f, n) ==
    CanUpdateContext(c, id, ps, hasCap, capok, t, f, n) /\ UpdEffects(id, ps, hasCap, cap, t, f, n, 0)
ModUpdate(c, id, ps, hasCap, cap, capok, t, f, n, thr) ==
    CanModUpdate(c, id, ps, hasCap, capok, t, f, n, thr) /\ UpdEffects(id, ps, hasCap, cap, t, f, n, thr)

-----------------------------------------------------------------------------
(* Respond: keeper/invocation.go AddResponse *)

\* kind: "valid" (code 200, output satisfies the output schema), "bad" (code 200, output is
\* JSON but violates the schema), "none" (code 400/500, no output)
CanRespond(p, r, kind) ==
    /\ phase = "deliver"
    /\ r \in DOMAIN req
    /\ r[1] \in DOMAIN ctx
    /\ req[r].prov = p
    /\ r \in actId
    /\ IF kind = "bad"
       THEN /\ HasBind(ctx[r[1]].svc, p)
            /\ bal[DEP] >= SlashAmt(bind, BK(ctx[r[1]].svc, p))
            /\ bal[REQ] >= req[r].fee
       ELSE bal[REQ] >= TaxOf(req[r].fee)

Respond(p, r, kind, out) ==
    /\ CanRespond(p, r, kind)
    /\ LET id  == r[1]
           c   == ctx[id]
           q   == req[r]
           k   == BK(c.svc, p)
           tax == TaxOf(q.fee)
           net == q.fee - tax
           rs  == Put(resp, r, [prov |-> p, cons |-> c.cons, kind |-> kind, out |-> out,
                                ctx |-> id, batch |-> q.batch])
           done == c.respCount + 1 = c.reqCount
       IN
       /\ IF kind = "bad"
          THEN /\ bind' = SlashedBind(bind, k)
               /\ supply' = supply - SlashAmt(bind, k)
               /\ bal' = Move([bal EXCEPT ![DEP] = @ - SlashAmt(bind, k)], REQ, c.cons, q.fee)
               /\ UNCHANGED <<earned, oearned>>
          ELSE /\ bal' = Move(bal, REQ, TAX, tax)
               /\ earned' = AddTo(earned, p, net)
               /\ oearned' = AddTo(oearned, IF p \in DOMAIN powner THEN powner[p] ELSE "", net)
               /\ UNCHANGED <<bind, supply>>
       /\ resp' = rs
       /\ actId' = actId \ {r}
       /\ actBind' = actBind \ {<<c.svc, p, q.exp, r>>}
       /\ vol' = Put(vol, <<c.cons, c.svc, p>>, Get0(vol, <<c.cons, c.svc, p>>) + 1)
       /\ LET c1 == [c EXCEPT !.respCount = @ + 1, !.bstate = IF done THEN "completed" ELSE @]
              op == IF done /\ c.module # "" THEN c.rresp ELSE ""
              t  == TgtOf(c, id)
              N  == Nest([ctx EXCEPT ![id] = c1], newQ, newQH, expQH, c.cons, t, op)
          IN /\ ctx' = IF "D13" \in Defects THEN [N.cx EXCEPT ![id] = c1] ELSE N.cx
             /\ newQ' = N.nq /\ newQH' = N.nqh
             /\ cb' = IF done /\ c.module # ""
                      THEN <<RespCb(id, c.batch, OutputsOf(rs, id, c.batch), c.bthr)>> \o NestCbs(t, op, N.ok)
                      ELSE <<>>
    /\ UNCHANGED <<height, now, phase, params, defs, powner, oprov, obind, waddr, nctx,
                   expQ, expQH, req>>

-----------------------------------------------------------------------------
(* Earned fees: keeper/fees.go WithdrawEarnedFees *)

\* p = "": withdraw everything the owner has earned
WithdrawAmt(o, p) == IF p = "" THEN Get0(oearned, o) ELSE Get0(earned, p)
WithdrawDest(o)   == IF o \in DOMAIN waddr THEN waddr[o] ELSE o

CanWithdraw(o, p) ==
    /\ phase = "deliver"
    /\ (p # "" => p \in DOMAIN powner /\ powner[p] = o)
    /\ (p # "" => Get0(oearned, o) >= Get0(earned, p))      \* otherwise Coins.Sub panics
    /\ bal[REQ] >= WithdrawAmt(o, p)

Withdraw(o, p) ==
    /\ CanWithdraw(o, p)
    /\ bal' = Move(bal, REQ, WithdrawDest(o), WithdrawAmt(o, p))
    /\ IF p = ""
       THEN /\ earned' = Drop(earned, {x \in DOMAIN earned : <<o, x>> \in oprov})
            /\ oearned' = Drop(oearned, {o})
       ELSE /\ earned' = Drop(earned, {p})
            /\ oearned' = SetOrDrop(oearned, o, Get0(oearned, o) - Get0(earned, p))
    /\ cb' = <<>>
    /\ UNCHANGED <<height, now, phase, params, supply, defs, bind, powner, oprov, obind, waddr,
                   nctx, ctx, newQ, newQH, expQ, expQH, req, actId, actBind, resp, vol>>

-----------------------------------------------------------------------------
(* Environment: x/bank transfer between ordinary accounts *)

CanBankSend(a, b, n) == phase = "deliver" /\ bal[a] >= n /\ a \notin ModuleAccts /\ b \notin ModuleAccts

BankSend(a, b, n) ==
    /\ CanBankSend(a, b, n)
    /\ bal' = Move(bal, a, b, n)
    /\ cb' = <<>>
    /\ UNCHANGED <<height, now, phase, params, supply, defs, bind, powner, oprov, obind, waddr,
                   nctx, ctx, newQ, newQH, expQ, expQH, req, actId, actBind, resp, vol,
                   earned, oearned>>

-----------------------------------------------------------------------------
(* Environment: governance replaces the module parameters between transactions (x/params).  *)
(* Nothing else changes: contexts keep their timeouts, requests their expiry heights,        *)
(* bindings their deposits.  params.lax remembers that the minimum collateral was raised in  *)
(* this history, after which bindings made earlier may lawfully sit below it.                *)

\* (the module's parameter validators: positive timeout bound, multiple and periods, a well-formed minimum
\* deposit, a slash fraction in [0, 1], a tax in [0, 1))
CanSetParams(p) ==
    /\ phase = "deliver"
    /\ p.maxTimeout > 0 /\ p.multiple > 0 /\ p.minDeposit >= 0 /\ p.refundDelay >= 1
    /\ p.slash >= 0 /\ p.slash <= FScale
    /\ p.tax >= 0 /\ p.tax < FScale

SetParams(p) ==
    /\ CanSetParams(p)
    /\ params' = [p EXCEPT !.lax = params.lax \/ p.minDeposit > params.minDeposit
                                               \/ p.multiple > params.multiple]
    /\ cb' = <<>>
    /\ UNCHANGED <<height, now, phase, bal, supply, defs, bind, powner, oprov, obind, waddr,
                   nctx, ctx, newQ, newQH, expQ, expQH, req, actId, actBind, resp, vol,
                   earned, oearned>>

-----------------------------------------------------------------------------
(* EndBlocker: abci.go *)

BeginEndBlock ==
    /\ phase = "deliver"
    /\ phase' = "expire"
    /\ cb' = <<>>
    /\ UNCHANGED <<height, now, params, bal, supply, defs, bind, powner, oprov, obind, waddr,
                   nctx, ctx, newQ, newQH, expQ, expQH, req, actId, actBind, resp, vol,
                   earned, oearned>>

\* whether an expiry removes the context (after the batch was completed)
Finished(c) == ~c.rep \/ (c.total >= 0 /\ c.batch >= c.total)
RemovedAtExpiry(c) ==
    \/ c.state = "completed"
    \/ c.state = "running" /\ Finished(c)
    \/ c.state = "paused" /\ Finished(c) /\ "D4" \notin Defects

\* one call of expiredRequestBatchHandler
ExpireBatch(id) ==
    /\ phase = "expire"
    /\ <<height, id>> \in expQ
    /\ id \in DOMAIN ctx
    /\ LET c    == ctx[id]
           open == c.bstate # "completed"
           S    == IF open THEN ActOf(id, c.batch) ELSE {}
           \* timeouts of non-super requests are slashed and refunded
           P    == IF c.super THEN {} ELSE {r \in S : r \in DOMAIN req}
           keys == {BK(c.svc, req[r].prov) : r \in P}
           \* one request per binding and batch: each binding is slashed at most once here
           slashOK(k) == k \in DOMAIN bind /\ bal[DEP] >= SlashAmt(bind, k)
           bd1  == [k \in DOMAIN bind |->
                      IF k \in keys /\ slashOK(k) THEN SlashedBind(bind, k)[k] ELSE bind[k]]
           burnt == SumOver([k \in keys |-> IF slashOK(k) THEN SlashAmt(bind, k) ELSE 0], keys)
           refund == SumOver([r \in P |-> req[r].fee], P)
           c0   == IF open THEN [c EXCEPT !.bstate = "completed"] ELSE c
           op   == IF open /\ c.module # "" THEN c.rresp ELSE ""
           t    == TgtOf(c, id)
           \* the callback runs before the expiry entry of this batch is taken off the queue
           N    == Nest([ctx EXCEPT ![id] = c0], newQ, newQH, expQH, c.cons, t, op)
           c1   == IF "D13" \in Defects THEN c0 ELSE N.cx[id]
           gone == RemovedAtExpiry(c1)
           again == c1.state = "running" /\ ~Finished(c1)
           nh   == height - c1.timeout + c1.freq
       IN
       /\ bind' = bd1
       /\ supply' = supply - burnt
       \* (the code ignores a failing refund; with C01 the escrow always suffices)
       /\ bal' = IF bal[REQ] >= refund
                 THEN Move([bal EXCEPT ![DEP] = @ - burnt], REQ, c.cons, refund)
                 ELSE [bal EXCEPT ![DEP] = @ - burnt]
       /\ actId' = actId \ S
       /\ actBind' = {a \in actBind : a[4] \notin S}
       /\ cb' = IF open /\ c.module # ""
                THEN <<RespCb(id, c.batch, OutputsOf(resp, id, c.batch), c.bthr)>> \o NestCbs(t, op, N.ok)
                ELSE <<>>
       /\ expQ' = expQ \ {<<height, id>>}
       /\ expQH' = Drop(expQH, {id})
       /\ ctx' = IF gone THEN Drop(N.cx, {id}) ELSE [N.cx EXCEPT ![id] = c1]
       /\ IF again
          THEN newQ' = N.nq \cup {<<nh, id>>} /\ newQH' = Put(N.nqh, id, nh)
          ELSE newQ' = N.nq /\ newQH' = N.nqh
       /\ req' = Drop(req, ReqsOf(id, c.batch))
       /\ resp' = Drop(resp, RespsOf(id, c.batch))
    /\ UNCHANGED <<height, now, phase, params, defs, powner, oprov, obind, waddr, nctx, vol,
                   earned, oearned>>

Mid ==
    /\ phase = "expire"
    /\ ~\E e \in expQ : e[1] = height
    /\ phase' = "start"
    /\ cb' = <<>>
    /\ UNCHANGED <<height, now, params, bal, supply, defs, bind, powner, oprov, obind, waddr,
                   nctx, ctx, newQ, newQH, expQ, expQH, req, actId, actBind, resp, vol,
                   earned, oearned>>

\* keeper FilterServiceProviders: the providers of the context that are eligible now
EligibleP(c, p) ==
    /\ HasBind(c.svc, p)
    /\ bind[BK(c.svc, p)].avail
    /\ bind[BK(c.svc, p)].qos <= c.timeout
    /\ (IF "D2" \in Defects
        THEN RawPriceOf(bind[BK(c.svc, p)].sp, now, Get0(vol, <<c.cons, c.svc, p>>))
        ELSE PriceOf(bind[BK(c.svc, p)].sp, now, Get0(vol, <<c.cons, c.svc, p>>))) <= c.cap
EligibleSeq(c) == SelectSeq(c.provs, LAMBDA p : EligibleP(c, p))
FeeOf(c, p) == IF c.super THEN 0
               ELSE PriceOf(bind[BK(c.svc, p)].sp, now, Get0(vol, <<c.cons, c.svc, p>>))
ChargeOf(c, p) == IF "D2" \in Defects
                  THEN RawPriceOf(bind[BK(c.svc, p)].sp, now, Get0(vol, <<c.cons, c.svc, p>>))
                  ELSE PriceOf(bind[BK(c.svc, p)].sp, now, Get0(vol, <<c.cons, c.svc, p>>))

\* A context that has had all its batches can only be due for another after a restart from a
\* zero-height export (its last batch was aborted there, it was paused like every context, and was
\* started again on the new chain).  As found (D12) it was issued one batch more than its total.
Exhausted(c) == c.batch > 0 /\ Finished(c)

\* one call of newRequestBatchHandler
StartBatch(id) ==
    /\ phase = "start"
    /\ <<height, id>> \in newQ
    /\ id \in DOMAIN ctx
    /\ LET c == ctx[id]
           E == EligibleSeq(c)
           enough == Len(E) > 0 /\ Len(E) >= c.thr
           total == IF c.super THEN 0 ELSE SumSeq([i \in DOMAIN E |-> ChargeOf(c, E[i])])
           broke == enough /\ ~c.super /\ bal[c.cons] < total
           b1 == c.batch + 1
           rids == [i \in DOMAIN E |-> <<id, b1, height, i - 1>>]
           issue == enough /\ (~broke \/ "D1" \in Defects)
           served == c.state = "running" /\ ~(Exhausted(c) /\ "D12" \notin Defects)
           \* OnRequestContextPaused: the pause is stored, then the owning module's state callback runs
           \* (the queue entry being handled is still there) and may call the keeper again
           cp == [c EXCEPT !.bstate = "completed", !.state = "paused"]
           pausing == served /\ enough /\ ~issue
           t  == TgtOf(c, id)
           rop == IF pausing /\ c.module # "" THEN c.rstate ELSE ""
           N  == Nest([ctx EXCEPT ![id] = cp], newQ, newQH, expQH, c.cons, t, rop)
       IN
       /\ newQ' = (IF pausing THEN N.nq ELSE newQ) \ {<<height, id>>}
       /\ newQH' = Drop(IF pausing THEN N.nqh ELSE newQH, {id})
       /\ IF c.state # "running"
          THEN /\ cb' = <<>>
               /\ UNCHANGED <<bal, ctx, expQ, expQH, req, actId, actBind>>
          ELSE IF Exhausted(c) /\ "D12" \notin Defects
          THEN \* every batch of the context has been issued: it is finished, not given one more
               /\ ctx' = Drop(ctx, {id})
               /\ cb' = <<>>
               /\ UNCHANGED <<bal, expQ, expQH, req, actId, actBind>>
          ELSE
          /\ bal' = IF enough /\ ~c.super /\ ~broke THEN Move(bal, c.cons, REQ, total) ELSE bal
          /\ cb' = IF broke /\ c.module # ""
                   THEN <<StateCb(id, "insufficient balances")>> \o NestCbs(t, rop, N.ok)
                   ELSE <<>>
          /\ IF ~enough
             THEN \* SkipCurrentRequestBatch
                  /\ ctx' = [ctx EXCEPT ![id] = [c EXCEPT !.batch = b1, !.bstate = "running",
                                    !.reqCount = 0, !.respCount = 0, !.bthr = c.thr]]
                  /\ expQ' = expQ \cup {<<height + c.timeout, id>>}
                  /\ expQH' = Put(expQH, id, height + c.timeout)
                  /\ UNCHANGED <<req, actId, actBind>>
             ELSE IF ~issue
             THEN \* paused, nothing issued.  (If the module answers by starting the context again, the
                  \* start finds the queue entry that is being handled, adds none, and the entry is then
                  \* removed: the context is left running with nothing scheduled - finding D14.)
                  /\ ctx' = N.cx
                  /\ UNCHANGED <<expQ, expQH, req, actId, actBind>>
             ELSE \* InitiateRequests (as found with D1: also after the pause)
                  /\ ctx' = [ctx EXCEPT ![id] =
                               [c EXCEPT !.batch = b1, !.bstate = "running",
                                         !.reqCount = Len(E), !.respCount = 0, !.bthr = c.thr,
                                         !.state = IF broke THEN "paused" ELSE c.state]]
                  /\ req' = [r \in (DOMAIN req) \cup Range(rids) |->
                               IF r \in Range(rids)
                               THEN LET i == CHOOSE j \in DOMAIN rids : rids[j] = r IN
                                    [ctx |-> id, batch |-> b1, prov |-> E[i], fee |-> FeeOf(c, E[i]),
                                     rh |-> height, exp |-> height + c.timeout]
                               ELSE req[r]]
                  /\ actId' = actId \cup Range(rids)
                  /\ actBind' = actBind \cup {<<c.svc, E[i], height + c.timeout, rids[i]>> : i \in DOMAIN E}
                  /\ expQ' = expQ \cup {<<height + c.timeout, id>>}
                  /\ expQH' = Put(expQH, id, height + c.timeout)
    /\ UNCHANGED <<height, now, phase, params, supply, defs, bind, powner, oprov, obind, waddr,
                   nctx, resp, vol, earned, oearned>>

EndBlock(dt) ==
    /\ phase = "start"
    /\ ~\E e \in newQ : e[1] = height
    /\ phase' = "deliver"
    /\ height' = height + 1
    /\ now' = now + dt
    /\ cb' = <<>>
    /\ UNCHANGED <<params, bal, supply, defs, bind, powner, oprov, obind, waddr, nctx, ctx,
                   newQ, newQH, expQ, expQH, req, actId, actBind, resp, vol, earned, oearned>>

-----------------------------------------------------------------------------
(* Genesis: genesis.go PrepForZeroHeightGenesis.  Every pending fee goes back to its       *)
(* consumer, every earning to its provider; every context is paused with no batch in       *)
(* flight.  The request, queue and earnings records stay in the store (they are not        *)
(* exported): the chain stops here, so this is the last step of a history.                 *)

PrepRefunds(a) ==
    SumOver([r \in actId |-> IF r \in DOMAIN req /\ r[1] \in DOMAIN ctx /\ ctx[r[1]].cons = a
                             THEN req[r].fee ELSE 0], actId)
    + Get0(earned, a)

PrepBal == [a \in DOMAIN bal |->
                IF a = REQ
                THEN bal[REQ] - SumOver([r \in actId |-> IF r \in DOMAIN req THEN req[r].fee ELSE 0], actId)
                              - SumOver(earned, DOMAIN earned)
                ELSE IF a \in ModuleAccts THEN bal[a] ELSE bal[a] + PrepRefunds(a)]
PrepCtx == [id \in DOMAIN ctx |->
                [ctx[id] EXCEPT !.state = "paused", !.bstate = "completed", !.reqCount = 0, !.respCount = 0]]

PrepZeroHeight ==
    /\ phase = "deliver"
    /\ bal' = PrepBal
    /\ ctx' = PrepCtx
    /\ cb' = <<>>
    /\ UNCHANGED <<height, now, phase, params, supply, defs, bind, powner, oprov, obind, waddr, nctx,
                   newQ, newQH, expQ, expQH, req, actId, actBind, resp, vol, earned, oearned>>

\* A new chain is started from the genesis exported after the preparation (height 1 again, the
\* harness keeps the clock and carries the bank balances over).  What the genesis does not hold is
\* gone: queues, request and response records, pending markers, volumes, earnings records.
RestartFrom(t, b, cx) ==
    /\ phase = "deliver"
    /\ bal' = b /\ ctx' = cx
    /\ height' = 1 /\ now' = t
    /\ newQ' = {} /\ newQH' = <<>> /\ expQ' = {} /\ expQH' = <<>>
    /\ req' = <<>> /\ actId' = {} /\ actBind' = {} /\ resp' = <<>>
    /\ vol' = <<>> /\ earned' = <<>> /\ oearned' = <<>>
    /\ cb' = <<>>
    /\ UNCHANGED <<phase, params, supply, defs, bind, powner, oprov, obind, waddr, nctx>>

Restart(t) == RestartFrom(t, bal, ctx)
\* preparation, export and restart in one step (for model checking: no state in between)
PrepRestart(t) == RestartFrom(t, PrepBal, PrepCtx)

-----------------------------------------------------------------------------
(* Module services: handler.go handleMsgCallService module branch +          *)
(* keeper/module_service.go RequestModuleService.  As found (D9) only; the    *)
(* repository's application registers no module service.                      *)

\* kind: what the module service returns ("valid" | "bad" | "none")
CanCallModSvc(c, s, capok, inok, kind) ==
    /\ phase = "deliver"
    /\ s \in DOMAIN ModSvc
    /\ CanCreate(s, capok, inok, 1)

=============================================================================
