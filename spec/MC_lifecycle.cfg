CONSTANTS
  Scale = 10
  FScale = 10
  Defects = {}
  ModSvc <- C_ModSvc
  Accts <- C_Accts
  Signers <- C_Signers
  Provs <- C_Provs
  Consumers <- C_Consumers
  SvcNames <- C_Svcs
  InitDefs <- C_Svcs
  InitBinds <- C_InitBinds
  InitBal <- C_InitBal
  Params <- C_Params
  Prs <- C_Prs
  Deposits = {0}
  QosSet = {1}
  Caps = {3}
  Timeouts = {1, 2}
  Freqs = {0, 3}
  Totals = {1, 2}
  ProvSeqs <- C_ProvSeqs
  Dts = {1}
  Thresholds = {1, 2}
  Kinds = {"valid", "bad", "none"}
  Msgs <- C_Msgs
  MaxHeight = 5
  MaxCtx = 1
  MaxBatch = 3
SPECIFICATION MCSpec
CONSTRAINT MCConstraint
VIEW MCView
CHECK_DEADLOCK FALSE
INVARIANTS TypeOK Inv_C01 Inv_C03 Inv_C08 Inv_C10 Inv_C11 Inv_C12 Inv_C13 Inv_C14 Inv_C15 Inv_C16
PROPERTIES P_C02 P_C03 P_C04 P_C05 P_C06 P_C07 P_C08 P_C09 P_C10 P_C11 P_C12 P_C13 P_C15 P_C16
