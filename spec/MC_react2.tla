----------------------------- MODULE MC_react2 -----------------------------
(* two module-owned contexts of one consumer whose owner, from inside the response callback of one,  *)
(* kills, pauses, starts or re-caps the other (or itself): from a response message, from the expiry  *)
(* phase with the other's own expiry or next batch due in the same block, and - pause, kill, cap -   *)
(* from the state callback.  C06 C09 C10 C11 C12 C16.                                                *)
EXTENDS MCService
C_Accts == {"o1", "p1", "c1"}
C_Signers == {"o1"}
C_Provs == {"p1"}
C_Consumers == {"c1"}
C_Svcs == {"s1"}
C_InitDefs == {"s1"}
PrA == [price |-> 2, pt |-> <<>>, pv |-> <<>>]
C_InitBinds == {[s |-> "s1", p |-> "p1", o |-> "o1", dep |-> 8, pr |-> PrA, qos |-> 1, avail |-> TRUE]}
C_InitBal == [a \in C_Accts |-> IF a = "c1" THEN 5 ELSE 0]
C_Params == [maxTimeout |-> 3, multiple |-> 2, minDeposit |-> 4, tax |-> 1, slash |-> 5, refundDelay |-> 2, lax |-> FALSE]
C_Prs == {PrA}
C_ProvSeqs == {<<"p1">>}
C_ModSvc == <<>>
C_Msgs == {"ModCreate", "ModPause", "Respond", "NoSuper"}
C_Reactions == {<<"", "", 0>>, <<"kill", "", 2>>, <<"kill", "", 1>>, <<"start", "", 2>>, <<"start", "", 1>>,
                <<"pause", "kill", 2>>, <<"cap1", "pause", 2>>, <<"cap1", "cap1", 1>>}
=============================================================================
