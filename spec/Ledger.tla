------------------------------- MODULE Ledger -------------------------------
(***************************************************************************)
(* The money of the service module, and nothing else: who holds what, and   *)
(* what the module owes.  Service.tla refines this specification (checked   *)
(* by TLC within bounds: MC_* with PROPERTY LedgerRefined); its             *)
(* conservation laws - C01 escrow backing, C03 custody of the deposits,     *)
(* no coin created - are an INDUCTIVE invariant, discharged by Apalache for *)
(* unbounded amounts (bin/ledger.py).  Amounts are unbounded integers; the  *)
(* sets of accounts, requests and bindings are finite parameters.           *)
(*                                                                         *)
(* The actions are written as constraints on the next state (x' \in ...     *)
(* followed by conditions), so that Apalache reads them as assignments and  *)
(* TLC, which is given both states when it checks the refinement, as tests. *)
(***************************************************************************)
EXTENDS Integers, FiniteSets, Apalache

CONSTANTS
    \* @type: Set(ACCT);
    Accs,       \* ordinary accounts (consumers, owners, providers, withdrawal addresses)
    \* @type: Set(RID);
    Reqs,        \* request identifiers
    \* @type: Set(BND);
    Bnds         \* bindings

VARIABLES
    \* @type: ACCT -> Int;
    lbal,       \* balances of the ordinary accounts
    \* @type: Int;
    esc,        \* the request escrow account
    \* @type: Int;
    depAcct,    \* the deposit account
    \* @type: Int;
    taxAcct,    \* what went to the fee collector
    \* @type: Int;
    lsupply,    \* total supply
    \* @type: Set(RID);
    pending,    \* requests awaiting a response
    \* @type: RID -> Int;
    fee,        \* the fee a request carries (meaningful while it is pending)
    \* @type: RID -> ACCT;
    payer,      \* the consumer that paid it
    \* @type: ACCT -> Int;
    owed,       \* unwithdrawn earnings per provider
    \* @type: BND -> Int;
    dep         \* the deposit each binding records

lvars == <<lbal, esc, depAcct, taxAcct, lsupply, pending, fee, payer, owed, dep>>

\* @type: (a -> Int, Set(a)) => Int;
Sum(f, S) == ApaFoldSet(LAMBDA acc, x : acc + f[x], 0, S)

\* what leaves the pending set in this step, and what it carried for account a
Gone == pending \ pending'
\* @type: (ACCT) => Int;
RefundTo(a) == ApaFoldSet(LAMBDA acc, r : acc + (IF payer[r] = a THEN fee[r] ELSE 0), 0, Gone)
Burnt == ApaFoldSet(LAMBDA acc, b : acc + (dep[b] - dep'[b]), 0, Bnds)

\* fee and payer mean something only while a request is pending: every action keeps them for the
\* requests that stay pending and is silent about the rest
KeepPending ==
    /\ fee' \in [Reqs -> Int] /\ payer' \in [Reqs -> Accs]
    /\ \A r \in pending : r \in pending' => (fee'[r] = fee[r] /\ payer'[r] = payer[r])

-----------------------------------------------------------------------------
LInit ==
    /\ lbal \in [Accs -> Nat]
    /\ esc = 0 /\ depAcct = 0 /\ taxAcct = 0
    /\ lsupply = Sum(lbal, Accs)
    /\ pending = {}
    /\ fee = [r \in Reqs |-> 0]
    /\ payer \in [Reqs -> Accs]
    /\ owed = [a \in Accs |-> 0]
    /\ dep = [b \in Bnds |-> 0]

\* a batch is issued: the consumer is charged exactly the fees the new requests carry
Issue(c) ==
    /\ pending' \in SUBSET Reqs /\ pending \subseteq pending'
    /\ KeepPending
    /\ \A r \in Reqs : r \in pending' \ pending
                        => (fee'[r] >= 0 /\ payer'[r] = c)
    /\ LET total == Sum(fee', pending' \ pending) IN
       /\ lbal[c] >= total
       /\ lbal' = [lbal EXCEPT ![c] = @ - total]
       /\ esc' = esc + total
    /\ UNCHANGED <<depAcct, taxAcct, lsupply, owed, dep>>

\* a good answer: the fee, less tax, becomes an earning of the provider
Earn(r, p) ==
    /\ r \in pending
    /\ pending' = pending \ {r}
    /\ taxAcct' \in Int /\ taxAcct' >= taxAcct /\ taxAcct' - taxAcct <= fee[r]
    /\ esc' = esc - (taxAcct' - taxAcct)
    /\ owed' = [owed EXCEPT ![p] = @ + fee[r] - (taxAcct' - taxAcct)]
    /\ UNCHANGED <<lbal, depAcct, lsupply, dep>>
    /\ KeepPending

\* requests fail (time out, or one is answered badly): their fees go back to their consumers, and
\* deposits are slashed - the slashed coins are burnt
Settle ==
    /\ pending' \in SUBSET pending
    /\ dep' \in [Bnds -> Int]
    /\ \A b \in Bnds : 0 <= dep'[b] /\ dep'[b] <= dep[b]
    /\ lbal' = [a \in Accs |-> lbal[a] + RefundTo(a)]
    /\ esc' = esc - Sum(fee, Gone)
    /\ depAcct' = depAcct - Burnt
    /\ lsupply' = lsupply - Burnt
    /\ UNCHANGED <<taxAcct, owed>>
    /\ KeepPending

\* earnings of a set of providers are paid out to one destination
Withdraw(dest) ==
    /\ owed' \in [Accs -> Int]
    /\ \A a \in Accs : owed'[a] = owed[a] \/ owed'[a] = 0
    /\ LET amt == Sum(owed, Accs) - Sum(owed', Accs) IN
       /\ lbal' = [lbal EXCEPT ![dest] = @ + amt]
       /\ esc' = esc - amt
    /\ UNCHANGED <<depAcct, taxAcct, lsupply, pending, dep>>
    /\ KeepPending

\* an owner adds to a binding's deposit
Deposit(o, b) ==
    /\ dep' \in [Bnds -> Int]
    /\ \A x \in Bnds : x # b => dep'[x] = dep[x]
    /\ dep'[b] >= dep[b]
    /\ lbal[o] >= dep'[b] - dep[b]
    /\ lbal' = [lbal EXCEPT ![o] = @ - (dep'[b] - dep[b])]
    /\ depAcct' = depAcct + (dep'[b] - dep[b])
    /\ UNCHANGED <<esc, taxAcct, lsupply, pending, owed>>
    /\ KeepPending

\* a deposit is returned in full
RefundDep(o, b) ==
    /\ dep' = [dep EXCEPT ![b] = 0]
    /\ lbal' = [lbal EXCEPT ![o] = @ + dep[b]]
    /\ depAcct' = depAcct - dep[b]
    /\ UNCHANGED <<esc, taxAcct, lsupply, pending, owed>>
    /\ KeepPending

\* x/bank between ordinary accounts
Transfer(a, b) ==
    /\ lbal' \in [Accs -> Int]
    /\ \A x \in Accs : x # a /\ x # b => lbal'[x] = lbal[x]
    /\ a # b /\ lbal'[a] >= 0 /\ lbal'[a] <= lbal[a]
    /\ lbal'[b] = lbal[b] + (lbal[a] - lbal'[a])
    /\ UNCHANGED <<esc, depAcct, taxAcct, lsupply, pending, owed, dep>>
    /\ KeepPending

\* zero-height preparation: every pending fee back to its consumer, every earning to its provider
ZeroHeight ==
    /\ pending' = {}
    /\ owed' = [a \in Accs |-> 0]
    /\ lbal' = [a \in Accs |-> lbal[a] + RefundTo(a) + owed[a]]
    /\ esc' = esc - Sum(fee, pending) - Sum(owed, Accs)
    /\ UNCHANGED <<depAcct, taxAcct, lsupply, dep>>
    /\ KeepPending

LNext ==
    \/ \E c \in Accs : Issue(c)
    \/ \E r \in Reqs, p \in Accs : Earn(r, p)
    \/ Settle
    \/ \E d \in Accs : Withdraw(d)
    \/ \E o \in Accs, b \in Bnds : Deposit(o, b) \/ RefundDep(o, b)
    \/ \E a, b \in Accs : Transfer(a, b)
    \/ ZeroHeight

LSpec == LInit /\ [][LNext]_lvars

-----------------------------------------------------------------------------
(* the conservation laws, as one inductive invariant *)

NonNeg ==
    /\ \A a \in Accs : lbal[a] >= 0 /\ owed[a] >= 0
    /\ \A r \in pending : fee[r] >= 0
    /\ \A b \in Bnds : dep[b] >= 0
    /\ taxAcct >= 0
Backed   == esc = Sum(fee, pending) + Sum(owed, Accs)                     \* C01
Custody  == depAcct = Sum(dep, Bnds)                                       \* C03
NoMint   == lsupply = Sum(lbal, Accs) + esc + depAcct + taxAcct           \* nothing created, only burnt

IndInv == NonNeg /\ Backed /\ Custody /\ NoMint

\* any state satisfying the invariant (the "initial" predicate of the inductive step)
IndInit ==
    /\ lbal \in [Accs -> Int] /\ esc \in Int /\ depAcct \in Int /\ taxAcct \in Int /\ lsupply \in Int
    /\ pending \in SUBSET Reqs /\ fee \in [Reqs -> Int] /\ payer \in [Reqs -> Accs]
    /\ owed \in [Accs -> Int] /\ dep \in [Bnds -> Int]
    /\ IndInv

\* the finite parameters of the Apalache run (amounts stay unbounded)
ConstInit ==
    /\ Accs = {"a1_OF_ACCT", "a2_OF_ACCT", "a3_OF_ACCT"}
    /\ Reqs = {"r1_OF_RID", "r2_OF_RID", "r3_OF_RID"}
    /\ Bnds = {"b1_OF_BND", "b2_OF_BND"}
=============================================================================
