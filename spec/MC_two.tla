------------------------------- MODULE MC_two -------------------------------
(* two request contexts alive together: two consumers (one of them short of funds) sharing one   *)
(* provider, or one consumer calling twice; a slash caused by one context disables the binding    *)
(* the other relies on; batches of both start and expire in the same blocks.                      *)
(* C01 C02 C04 C06 C09 C10 C11 C12 C16.                                                            *)
EXTENDS MCService
C_Accts == {"o1", "p1", "p2", "c1", "c2"}
C_Signers == {"o1"}
C_Provs == {"p1", "p2"}
C_Consumers == {"c1", "c2"}
C_Svcs == {"s1"}
C_InitDefs == {"s1"}
PrA == [price |-> 2, pt |-> <<>>, pv |-> <<[v |-> 1, d |-> 5]>>]
PrB == [price |-> 1, pt |-> <<>>, pv |-> <<>>]
C_InitBinds == {[s |-> "s1", p |-> "p1", o |-> "o1", dep |-> 5, pr |-> PrA, qos |-> 1, avail |-> TRUE],
                [s |-> "s1", p |-> "p2", o |-> "o1", dep |-> 8, pr |-> PrB, qos |-> 1, avail |-> TRUE]}
C_InitBal == [a \in C_Accts |-> IF a = "c1" THEN 5 ELSE IF a = "c2" THEN 2 ELSE 0]
C_Params == [maxTimeout |-> 2, multiple |-> 2, minDeposit |-> 4, tax |-> 1, slash |-> 5, refundDelay |-> 2, lax |-> FALSE]
C_Prs == {PrA}
C_ProvSeqs == {<<"p1">>, <<"p1", "p2">>}
C_ModSvc == <<>>
C_Msgs == {"Call", "Respond", "Pause", "Start", "Kill", "NoSuper"}
=============================================================================
