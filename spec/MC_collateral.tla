---------------------------- MODULE MC_collateral ----------------------------
(* collateral under fire: a binding is slashed (timeouts, malformed answers) while its owner    *)
(* disables, re-enables, tops up, re-prices and refunds it, with requests of the binding pending *)
(* and block times that land before, at and after the refundable instant.  C03 C04 C05 C14.      *)
EXTENDS MCService
C_Accts == {"o1", "o2", "p1", "c1"}
C_Signers == {"o1", "o2"}
C_Provs == {"p1"}
C_Consumers == {"c1"}
C_Svcs == {"s1"}
C_InitDefs == {"s1"}
PrA == [price |-> 2, pt |-> <<>>, pv |-> <<>>]
PrB == [price |-> 3, pt |-> <<>>, pv |-> <<>>]
C_InitBinds == {[s |-> "s1", p |-> "p1", o |-> "o1", dep |-> 5, pr |-> PrA, qos |-> 1, avail |-> TRUE]}
C_InitBal == [a \in C_Accts |-> IF a = "c1" THEN 6 ELSE IF a = "o1" THEN 4 ELSE 0]
C_Params == [maxTimeout |-> 2, multiple |-> 2, minDeposit |-> 4, tax |-> 1, slash |-> 5, refundDelay |-> 2, lax |-> FALSE]
C_Prs == {PrA, PrB}
C_ProvSeqs == {<<"p1">>}
C_ModSvc == <<>>
C_Msgs == {"Call", "Respond", "Disable", "Enable", "RefundDeposit", "UpdateBinding", "NoSuper"}
=============================================================================
