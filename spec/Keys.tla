-------------------------------- MODULE Keys --------------------------------
(***************************************************************************)
(* The store-key and identifier layout of types/keys.go and                *)
(* types/invocation.go, transcribed as sequences of bytes.                 *)
(*                                                                         *)
(*  - KeyOf(fn, a): the key builder fn applied to atoms a (names, address  *)
(*    bytes, bech32 text, integers).  Bound to the Go functions by         *)
(*    KeysTrace (the harness logs <<fn, atoms, bytes>> for the real code). *)
(*  - Over a small alphabet, MC_keys checks exhaustively that keys of      *)
(*    different records never coincide and that every prefix scan the      *)
(*    module performs selects exactly the records of its subject.          *)
(***************************************************************************)
EXTENDS Integers, Sequences, FiniteSets, TLC

\* big-endian encoding of n >= 0 in w bytes
RECURSIVE BE(_, _)
BE(n, w) == IF w = 0 THEN <<>> ELSE BE(n \div 256, w - 1) \o <<n % 256>>

IsPrefix(p, s) == Len(p) <= Len(s) /\ SubSeq(s, 1, Len(p)) = p

Z == <<0>>      \* the separator of string keys

\* key builders (types/keys.go).  svc, denom: text; prov, owner, cons: address bytes;
\* bprov, bcons: the bech32 text of an address; cid: context id bytes; rid: request id bytes
K01(svc)                 == <<1>> \o svc
K02(svc, bprov)          == <<2>> \o svc \o Z \o bprov
K03(owner, svc, prov)    == <<3>> \o owner \o svc \o Z \o prov
K04(prov)                == <<4>> \o prov
K05(owner, prov)         == <<5>> \o owner \o prov
K06(svc, bprov)          == <<6>> \o svc \o Z \o bprov
K07(owner)               == <<7>> \o owner
K08(cid)                 == <<8>> \o cid
K09(cid, h)              == <<9>> \o BE(h, 8) \o cid
K10(cid, h)              == <<16>> \o BE(h, 8) \o cid
K11(cid)                 == <<17>> \o cid
K12(cid)                 == <<18>> \o cid
K13(rid)                 == <<19>> \o rid
K14(svc, bprov, exp, rid) == <<20>> \o svc \o Z \o bprov \o Z \o BE(exp, 8) \o rid
K15(rid)                 == <<21>> \o rid
K16(rid)                 == <<22>> \o rid
K17(bcons, svc, bprov)   == <<23>> \o bcons \o Z \o svc \o Z \o bprov \o Z
K18(prov, denom)         == <<24>> \o prov \o denom
K19(owner)               == <<25>> \o owner

\* scan prefixes (Get*Subspace*)
P02(svc)          == <<2>> \o svc \o Z                       \* bindings of a service
P03(owner, svc)   == <<3>> \o owner \o svc \o Z              \* bindings of a service and owner
P05(owner)        == <<5>> \o owner                          \* providers of an owner
P09(h)            == <<9>> \o BE(h, 8)                       \* batches expiring at a height
P10(h)            == <<16>> \o BE(h, 8)                      \* batches starting at a height
P13(cid, b)       == <<19>> \o cid \o BE(b, 8)               \* requests of a batch
P14(svc, bprov)   == <<20>> \o svc \o Z \o bprov \o Z        \* pending requests of a binding
P15(cid, b)       == <<21>> \o cid \o BE(b, 8)               \* pending requests of a batch
P16(cid, b)       == <<22>> \o cid \o BE(b, 8)               \* responses of a batch
P18(prov)         == <<24>> \o prov                          \* earnings of a provider
P19(owner)        == <<25>> \o owner                         \* earnings of an owner

\* identifiers (types/invocation.go)
CtxID(hash, idx)          == hash \o BE(idx, 8)
ReqID(cid, b, h, i)       == cid \o BE(b, 8) \o BE(h, 8) \o BE(i, 2)

=============================================================================
