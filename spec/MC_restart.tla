----------------------------- MODULE MC_restart -----------------------------
(* zero-height restarts in the middle of a context's life: the preparation, export and import are  *)
(* one step (PrepRestart), after which the context is started again and runs on.  C09 C10 C11 C16   *)
(* and the money invariants across the restart.                                                     *)
EXTENDS MCService

C_Accts == {"o1", "p1", "c1"}
C_Signers == {"o1"}
C_Provs == {"p1"}
C_Consumers == {"c1"}
C_Svcs == {"s1"}
C_InitDefs == {"s1"}
PrA == [price |-> 2, pt |-> <<>>, pv |-> <<>>]
C_InitBinds == {[s |-> "s1", p |-> "p1", o |-> "o1", dep |-> 8, pr |-> PrA, qos |-> 1, avail |-> TRUE]}
C_InitBal == [a \in C_Accts |-> IF a = "c1" THEN 9 ELSE 0]
C_Params == [maxTimeout |-> 3, multiple |-> 2, minDeposit |-> 4, tax |-> 1, slash |-> 5, refundDelay |-> 2, lax |-> FALSE]
C_Prs == {PrA}
C_ProvSeqs == {<<"p1">>}
C_ModSvc == <<>>
C_Msgs == {"Call", "Pause", "Start", "Kill", "UpdateContext", "Respond", "Withdraw", "NoSuper"}
C_WithRestart == TRUE
=============================================================================
