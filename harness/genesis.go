package main

// C19: zero-height preparation, export, validation, JSON round trip through the application
// codec, import into a fresh application and second export - each step on the real code.

import (
	"fmt"
	"sort"

	sdk "github.com/cosmos/cosmos-sdk/types"
	tmproto "github.com/tendermint/tendermint/proto/tendermint/types"

	service "github.com/irismod/service"
	"github.com/irismod/service/types"
)

type GenObs struct {
	Valid      bool   `json:"valid"`      // ValidateGenesis accepts the export
	JSONOk     bool   `json:"jsonok"`     // written as JSON by the app codec and read back
	JSONSame   bool   `json:"jsonsame"`   // ... giving the identical genesis
	ModuleOk   bool   `json:"moduleok"`   // AppModule.ExportGenesis -> AppModuleBasic.ValidateGenesis -> AppModule.InitGenesis
	ImportOk   bool   `json:"importok"`   // InitGenesis into a fresh application does not panic
	ReexportOk bool   `json:"reexportok"` // the fresh application's export is the identical genesis
	Err        string `json:"err"`
	NDefs      int    `json:"ndefs"`
	NBind      int    `json:"nbind"`
	NWaddr     int    `json:"nwaddr"`
	NCtx       int    `json:"nctx"`
	Imp        *State `json:"imp"` // the fresh application's state after the import
}

func try(f func()) (err string) {
	defer func() {
		if r := recover(); r != nil {
			err = fmt.Sprint(r)
		}
	}()
	f()
	return ""
}

// a canonical summary of a genesis state (maps in key order)
func (c *Chain) genSummary(gs *types.GenesisState) string {
	s := "params:" + c.dgOf(&gs.Params) + ";"
	for i := range gs.Definitions {
		s += "def:" + c.dgOf(&gs.Definitions[i]) + ";"
	}
	for i := range gs.Bindings {
		s += "bind:" + c.dgOf(&gs.Bindings[i]) + ";"
	}
	var ks []string
	for k := range gs.WithdrawAddresses {
		ks = append(ks, k)
	}
	sort.Strings(ks)
	for _, k := range ks {
		s += fmt.Sprintf("waddr:%s=%x;", k, gs.WithdrawAddresses[k])
	}
	ks = nil
	for k := range gs.RequestContexts {
		ks = append(ks, k)
	}
	sort.Strings(ks)
	for _, k := range ks {
		s += "ctx:" + k + "=" + c.dgOf(gs.RequestContexts[k]) + ";"
	}
	return s
}

func (c *Chain) PrepZeroHeight() Outcome {
	out := c.run(func(ctx sdk.Context) error {
		service.PrepForZeroHeightGenesis(ctx, c.K)
		return nil
	})
	c.Prepared = c.Prepared || out.OK
	return out
}

// Restart starts a new chain from the genesis exported after the preparation: the export goes through
// the application codec as JSON and is imported into a fresh application whose bank holds what the old
// chain's bank held (ordinary and module accounts); block heights start again at 1, the clock goes on.
// The receiver becomes that new chain.
func (c *Chain) Restart() (out Outcome) {
	defer func() {
		if r := recover(); r != nil {
			out = Outcome{OK: false, Panic: true, Err: fmt.Sprint(r)}
		}
	}()
	cdc := c.App.AppCodec()
	gs := service.ExportGenesis(c.Ctx, c.K)
	var gs2 types.GenesisState
	cdc.MustUnmarshalJSON(cdc.MustMarshalJSON(gs), &gs2)
	names := append([]string{}, c.Names...)
	var extra []string
	for n := range c.Addr {
		known := n == "DEP" || n == "REQ" || n == "TAX"
		for _, m := range names {
			known = known || m == n
		}
		if !known {
			extra = append(extra, n)
		}
	}
	sort.Strings(extra)
	names = append(names, extra...)
	bal := map[string]int64{}
	for _, n := range append(append([]string{}, names...), "DEP", "REQ", "TAX") {
		bal[n] = c.App.BankKeeper.GetBalance(c.Ctx, c.Addr[n], Denom).Amount.Int64()
	}
	f := NewChain(c.Params, names, bal)
	f.Names = append([]string{}, c.Names...)
	for k, v := range c.CtxIDs {
		f.CtxIDs[k] = v
	}
	for k, v := range c.CtxBytes {
		f.CtxBytes[k] = v
	}
	f.NCtx, f.TxSeq = c.NCtx, c.TxSeq
	for k, v := range c.React {
		f.React[k] = v
		f.ReactCons[k] = c.ReactCons[k]
	}
	if c.HasModSvc {
		f.RegisterTestModuleService()
	}
	service.InitGenesis(f.Ctx, f.K, gs2)
	f.Now = c.Now
	f.Ctx = f.Ctx.WithBlockTime(realTime(f.Now)).WithBlockHeader(tmproto.Header{Height: f.Height, Time: realTime(f.Now)})
	f.OnSub = c.OnSub
	*c = *f
	activeChain = c
	return Outcome{OK: true}
}

func (c *Chain) freshLike() *Chain {
	f := NewChain(c.Params, c.Names, nil)
	for k, v := range c.CtxIDs {
		f.CtxIDs[k] = v
	}
	for k, v := range c.CtxBytes {
		f.CtxBytes[k] = v
	}
	f.NCtx = c.NCtx
	for k, v := range c.React {
		f.React[k] = v
		f.ReactCons[k] = c.ReactCons[k]
	}
	return f
}

func (c *Chain) GenesisObs() *GenObs {
	g := &GenObs{}
	cdc := c.App.AppCodec()
	ctx, _ := c.Ctx.CacheContext()
	var gs *types.GenesisState
	if e := try(func() { gs = service.ExportGenesis(ctx, c.K) }); e != "" {
		g.Err = "export: " + e
		return g
	}
	g.NDefs, g.NBind, g.NWaddr, g.NCtx = len(gs.Definitions), len(gs.Bindings), len(gs.WithdrawAddresses), len(gs.RequestContexts)
	sum := c.genSummary(gs)
	if err := types.ValidateGenesis(*gs); err == nil {
		g.Valid = true
	} else {
		g.Err += "validate: " + err.Error() + "; "
	}
	// JSON round trip through the application codec
	var gs2 types.GenesisState
	if e := try(func() {
		bz := cdc.MustMarshalJSON(gs)
		cdc.MustUnmarshalJSON(bz, &gs2)
	}); e == "" {
		g.JSONOk = true
		g.JSONSame = c.genSummary(&gs2) == sum
	} else {
		g.Err += "json: " + e + "; "
	}
	// the module's own entry points
	am := service.NewAppModule(cdc, c.K, c.App.AccountKeeper, c.App.BankKeeper)
	if e := try(func() {
		raw := am.ExportGenesis(ctx, cdc)
		if err := (service.AppModuleBasic{}).ValidateGenesis(cdc, nil, raw); err != nil {
			panic(err)
		}
		f := c.freshLike()
		fam := service.NewAppModule(f.App.AppCodec(), f.K, f.App.AccountKeeper, f.App.BankKeeper)
		fam.InitGenesis(f.Ctx, f.App.AppCodec(), raw)
		if f.genSummary(service.ExportGenesis(f.Ctx, f.K)) != sum {
			panic("module round trip changed the genesis")
		}
	}); e == "" {
		g.ModuleOk = true
	} else {
		g.Err += "module: " + e + "; "
	}
	// import of the in-memory genesis into a fresh application, and second export
	f := c.freshLike()
	src := gs
	if g.JSONOk {
		src = &gs2
	}
	if e := try(func() { service.InitGenesis(f.Ctx, f.K, *src) }); e == "" {
		g.ImportOk = true
		f.Height, f.Now, f.Phase = c.Height, c.Now, c.Phase
		g.Imp = f.Project()
		if e := try(func() { g.ReexportOk = f.genSummary(service.ExportGenesis(f.Ctx, f.K)) == sum }); e != "" {
			g.Err += "re-export: " + e + "; "
		}
	} else {
		g.Err += "import: " + e + "; "
	}
	if g.Imp == nil {
		g.Imp = f.Project()
	}
	return g
}
