package main

// Operations in model terms.  An Ev is both the instruction a driver gives (name, signer,
// arguments) and, after Apply, the event that is logged (outcome filled in).  Scripted
// scenarios, the random driver and the replay of TLC-generated behaviours all go through
// Apply, so there is one path from the model's vocabulary to real messages.

import (
	"crypto/sha256"
	"encoding/hex"
	"fmt"
	"math"
	"strings"

	sdk "github.com/cosmos/cosmos-sdk/types"

	"github.com/irismod/service/types"
)

type Ev struct {
	Name   string `json:"name"`
	Signer string `json:"signer"`
	OK     bool   `json:"ok"`
	Panic  bool   `json:"panic"`
	Err    string `json:"err,omitempty"`

	Svc  string `json:"svc"`
	Prov string `json:"prov"`
	Dg   string `json:"dg"`

	Deposit int64    `json:"deposit"`
	DShape  string   `json:"dshape"` // ok | none | empty | other | two
	Dok     bool     `json:"dok"`
	HasPr   bool     `json:"hasPr"`
	Pr      MPricing `json:"pr"`
	PrDenom string   `json:"prdenom"`
	Prok    bool     `json:"prok"`
	Qos     int64    `json:"qos"`

	Addr string `json:"addr"`

	Provs    []string `json:"provs"`
	Input    string   `json:"input"`
	InKind   string   `json:"inkind"` // ok | nohdr
	Inok     bool     `json:"inok"`
	Cap      int64    `json:"cap"`
	CapShape string   `json:"capshape"` // ok | none | empty | other | two
	Capok    bool     `json:"capok"`
	HasCap   bool     `json:"hasCap"`
	Timeout  int64    `json:"timeout"`
	Freq     int64    `json:"freq"`
	FreqHuge bool     `json:"freqhuge"` // the frequency of the message is 2^64-1 (finding D11)
	Total    int64    `json:"total"`
	Super    bool     `json:"super"`
	Rep      bool     `json:"rep"`
	ID       int      `json:"id"`
	Module   string   `json:"module"`
	// Call / ModCreate, when accepted: the new context's id is the transaction hash followed by the
	// big-endian message index the host application supplied (checked by the harness on the raw key)
	CidOK bool   `json:"cidok"`
	State string `json:"state"`
	Thr   int64  `json:"thr"`
	// ModCreate: what the module does from inside its response / state callback
	RResp  string `json:"rresp"`
	RState string `json:"rstate"`
	RTgt   int    `json:"rtgt"` // the context the module acts on (0: the one the callback is about)

	Rid  [4]int64 `json:"rid"`
	Kind string   `json:"kind"`
	Out  string   `json:"out"`

	To     string `json:"to"`
	Amount int64  `json:"amount"`
	Dt     int64  `json:"dt"`

	// reset only
	RParams *MParams         `json:"params,omitempty"`
	RBal    map[string]int64 `json:"rbal,omitempty"`
	RInit   []Ev             `json:"init,omitempty"`
	RModSvc bool             `json:"modsvc,omitempty"` // register the test module service (finding D9)
	Tag     string           `json:"tag,omitempty"`
	// restore only (S4): the operations that lead from the initial state to the restored state
	Path []Ev `json:"path,omitempty"`

	// StartBatch only: the requests listed by the sub-step's new_batch_request event, in order
	EvReqs []EvReq `json:"evreqs"`

	// observation events
	Obs *Observation `json:"obs,omitempty"`
	Gen *GenObs      `json:"gen,omitempty"`
}

const (
	InputOK    = `{"header":{},"body":{}}`
	InputNoHdr = `{"body":{}}`
	Schemas    = `{"input":{"type":"object"},"output":{"type":"object"}}`
)

func coinsOf(shape string, n int64) sdk.Coins {
	switch shape {
	case "ok":
		return sdk.Coins{sdk.NewCoin(Denom, sdk.NewInt(n))}
	case "other":
		return sdk.Coins{sdk.NewCoin("foo", sdk.NewInt(n))}
	case "two":
		return sdk.Coins{sdk.NewCoin("foo", sdk.NewInt(n)), sdk.NewCoin(Denom, sdk.NewInt(n))}
	case "huge":
		// the largest amount a coin can carry (2^255 - 1): nobody holds it, and adding anything to it overflows
		max, _ := sdk.NewIntFromString("57896044618658097711785492504343953926634992332820282019728792003956564819967")
		return sdk.Coins{sdk.NewCoin(Denom, max)}
	}
	return sdk.Coins{} // none, empty
}

func (c *Chain) addrs(names []string) []sdk.AccAddress {
	r := []sdk.AccAddress{}
	for _, n := range names {
		r = append(r, c.A(n))
	}
	return r
}

func (c *Chain) ridBytes(r [4]int64) []byte {
	return types.GenerateRequestID(c.CtxID(int(r[0])), uint64(r[1]), r[2], int16(r[3]))
}

// pricingTextOf: the pricing text of a bind / update; the pseudo-denomination "HUGE" stands for a price of 5 * 10^76
// units of the base denomination (a valid coin - below 2^255 - whose double already overflows the SDK's integers)
func pricingTextOf(e *Ev) string {
	if e.PrDenom == "HUGE" {
		return `{"price":"5` + strings.Repeat("0", 76) + Denom + `"}`
	}
	return PricingText(e.Pr, e.PrDenom)
}

func outputFor(kind string, seq uint64) (result, output string) {
	switch kind {
	case "valid":
		return `{"code":200,"message":""}`, fmt.Sprintf(`{"header":{},"body":{"n":%d}}`, seq)
	case "bad":
		// valid JSON that the output schema refuses, in several shapes: no header, a header spelled with a
		// capital, a body that is null, a header that is not an object, a document that is not an object
		switch seq % 5 {
		case 1:
			return `{"code":200,"message":""}`, fmt.Sprintf(`{"Header":{},"Body":{"n":%d}}`, seq)
		case 2:
			return `{"code":200,"message":""}`, fmt.Sprintf(`{"header":{"n":%d},"body":null}`, seq)
		case 3:
			return `{"code":200,"message":""}`, fmt.Sprintf(`{"header":"h%d","body":{}}`, seq)
		case 4:
			return `{"code":200,"message":""}`, fmt.Sprintf(`[{"header":{},"body":{"n":%d}}]`, seq)
		}
		return `{"code":200,"message":""}`, fmt.Sprintf(`{"body":{"n":%d}}`, seq)
	}
	return `{"code":400,"message":"no"}`, ""
}

// newContextIDMatches: the key of the context created last is hash | big-endian(index), with the
// hash and index the harness supplied (its own encoding, not the module's id functions)
func (c *Chain) newContextIDMatches() bool {
	id := c.CtxBytes[c.NCtx]
	if len(id) != 40 || string(id[:32]) != string(c.LastTxHash) {
		return false
	}
	var idx int64
	for _, b := range id[32:] {
		idx = idx<<8 | int64(b)
	}
	return idx == c.LastMsgIndex
}

func ctxState(s string) types.RequestContextState {
	switch s {
	case "paused":
		return types.PAUSED
	case "completed":
		return types.COMPLETED
	}
	return types.RUNNING
}

// normalise fills derived fields so that the logged event is self-contained
func (c *Chain) normalise(e *Ev) {
	if e.Provs == nil {
		e.Provs = []string{}
	}
	if e.EvReqs == nil {
		e.EvReqs = []EvReq{}
	}
	if e.Pr.PT == nil {
		e.Pr.PT = []PromoT{}
	}
	if e.Pr.PV == nil {
		e.Pr.PV = []PromoV{}
	}
	switch e.Name {
	case "Bind", "UpdateBinding", "Enable":
		if e.DShape == "" {
			if e.Deposit == 0 && e.Name != "Bind" {
				e.DShape = "none"
			} else if e.Dok || e.Name != "Bind" || e.Deposit > 0 {
				e.DShape = "ok"
			} else {
				e.DShape = "empty"
			}
		}
		if e.DShape == "none" || e.DShape == "empty" {
			e.Deposit = 0
		}
		e.Dok = e.DShape == "ok"
		if e.Name == "Bind" {
			e.HasPr = true
		}
		if e.PrDenom == "" {
			e.PrDenom = Denom
		}
		e.Prok = e.PrDenom == Denom
	case "Call", "ModCreate", "UpdateContext", "ModUpdate":
		if e.CapShape == "" {
			if e.Cap == 0 && (e.Name == "UpdateContext" || e.Name == "ModUpdate") {
				e.CapShape = "none"
			} else {
				e.CapShape = "ok"
			}
		}
		if e.CapShape == "none" || e.CapShape == "empty" {
			e.Cap = 0
		}
		e.Capok = e.CapShape == "ok"
		e.HasCap = e.CapShape != "none" && e.CapShape != "empty"
		if e.Name == "Call" || e.Name == "ModCreate" {
			if e.InKind == "" {
				e.InKind = "ok"
			}
			if e.InKind == "ok" {
				e.Input = InputOK
			} else {
				e.Input = InputNoHdr
			}
			e.Inok = e.InKind == "ok"
			if !e.Rep {
				// the message may carry anything here; the model's arguments are the effective ones
			}
		}
		if e.Name == "ModCreate" {
			if e.Module == "" {
				e.Module = ModName
			}
			if e.State == "" {
				e.State = "running"
			}
		}
	}
}

// Apply executes one operation against the real code and fills in the outcome.
// It returns false when the operation is not part of any property's quantifier
// (the message fails stateless validation) and nothing was executed.
func (c *Chain) Apply(e *Ev) bool {
	c.normalise(e)
	var out Outcome
	switch e.Name {
	case "Define":
		out = c.Deliver(types.NewMsgDefineService(e.Svc, "d", nil, c.A(e.Signer), "a", Schemas))
		if out.OK {
			store := c.Ctx.KVStore(c.App.GetKey(types.StoreKey))
			h := sha256.Sum256(store.Get(append([]byte{0x01}, []byte(e.Svc)...)))
			e.Dg = hex.EncodeToString(h[:4])
		}
	case "Bind":
		out = c.Deliver(types.NewMsgBindService(e.Svc, c.A(e.Prov), coinsOf(e.DShape, e.Deposit),
			pricingTextOf(e), uint64(e.Qos), "{}", c.A(e.Signer)))
	case "UpdateBinding":
		pricing := ""
		if e.HasPr {
			pricing = pricingTextOf(e)
		}
		out = c.Deliver(types.NewMsgUpdateServiceBinding(e.Svc, c.A(e.Prov), coinsOf(e.DShape, e.Deposit),
			pricing, uint64(e.Qos), "{}", c.A(e.Signer)))
	case "Disable":
		out = c.Deliver(types.NewMsgDisableServiceBinding(e.Svc, c.A(e.Prov), c.A(e.Signer)))
	case "Enable":
		out = c.Deliver(types.NewMsgEnableServiceBinding(e.Svc, c.A(e.Prov), coinsOf(e.DShape, e.Deposit), c.A(e.Signer)))
	case "RefundDeposit":
		out = c.Deliver(types.NewMsgRefundServiceDeposit(e.Svc, c.A(e.Prov), c.A(e.Signer)))
	case "SetWithdrawAddr":
		out = c.Deliver(types.NewMsgSetWithdrawAddress(c.A(e.Signer), c.A(e.Addr)))
	case "Call":
		freq := uint64(e.Freq)
		if e.FreqHuge {
			freq = math.MaxUint64
		}
		out = c.Deliver(types.NewMsgCallService(e.Svc, c.addrs(e.Provs), c.A(e.Signer), e.Input,
			coinsOf(e.CapShape, e.Cap), e.Timeout, e.Super, e.Rep, freq, e.Total))
		if out.OK {
			e.ID = c.NCtx
			e.CidOK = c.newContextIDMatches()
		}
	case "ModCreate":
		if err := types.ValidateRequest(e.Svc, coinsOf(e.CapShape, e.Cap), c.addrs(e.Provs), e.Input,
			e.Timeout, e.Rep, uint64(e.Freq), e.Total); err != nil || len(e.Signer) == 0 {
			return false
		}
		out = c.run(func(ctx sdk.Context) error {
			_, err := c.K.CreateRequestContext(ctx, e.Svc, c.addrs(e.Provs), c.A(e.Signer), e.Input,
				coinsOf(e.CapShape, e.Cap), e.Timeout, e.Super, e.Rep, uint64(e.Freq), e.Total,
				ctxState(e.State), uint32(e.Thr), e.Module)
			return err
		})
		if out.OK {
			e.ID = c.NCtx
			e.CidOK = c.newContextIDMatches()
			c.React[e.ID] = Reaction{e.RResp, e.RState, e.RTgt}
			c.ReactCons[e.ID] = e.Signer
		}
	case "Pause":
		out = c.Deliver(types.NewMsgPauseRequestContext(c.CtxID(e.ID), c.A(e.Signer)))
	case "Start":
		out = c.Deliver(types.NewMsgStartRequestContext(c.CtxID(e.ID), c.A(e.Signer)))
	case "Kill":
		out = c.Deliver(types.NewMsgKillRequestContext(c.CtxID(e.ID), c.A(e.Signer)))
	case "ModPause":
		out = c.run(func(ctx sdk.Context) error { return c.K.PauseRequestContext(ctx, c.CtxID(e.ID), c.A(e.Signer)) })
	case "ModStart":
		out = c.run(func(ctx sdk.Context) error { return c.K.StartRequestContext(ctx, c.CtxID(e.ID), c.A(e.Signer)) })
	case "ModKill":
		out = c.run(func(ctx sdk.Context) error { return c.K.KillRequestContext(ctx, c.CtxID(e.ID), c.A(e.Signer)) })
	case "UpdateContext":
		out = c.Deliver(types.NewMsgUpdateRequestContext(c.CtxID(e.ID), c.addrs(e.Provs), coinsOf(e.CapShape, e.Cap),
			e.Timeout, uint64(e.Freq), e.Total, c.A(e.Signer)))
	case "ModUpdate":
		if err := types.ValidateRequestContextUpdating(c.addrs(e.Provs), coinsOf(e.CapShape, e.Cap), e.Timeout,
			uint64(e.Freq), e.Total); err != nil {
			return false
		}
		out = c.run(func(ctx sdk.Context) error {
			return c.K.UpdateRequestContext(ctx, c.CtxID(e.ID), c.addrs(e.Provs), uint32(e.Thr),
				coinsOf(e.CapShape, e.Cap), e.Timeout, uint64(e.Freq), e.Total, c.A(e.Signer))
		})
	case "Respond":
		result, output := outputFor(e.Kind, c.TxSeq+1)
		e.Out = output
		out = c.Deliver(types.NewMsgRespondService(c.ridBytes(e.Rid), c.A(e.Signer), result, output))
	case "Withdraw":
		out = c.Deliver(types.NewMsgWithdrawEarnedFees(c.A(e.Signer), c.A(e.Prov)))
	case "SetParams":
		if c.Phase != "deliver" || e.RParams == nil {
			return false
		}
		out = c.SetParams(*e.RParams)
	case "BankSend":
		out = c.run(func(ctx sdk.Context) error {
			return c.App.BankKeeper.SendCoins(ctx, c.A(e.Signer), c.A(e.To), sdk.NewCoins(sdk.NewCoin(Denom, sdk.NewInt(e.Amount))))
		})
	default:
		panic("unknown operation " + e.Name)
	}
	if out.Basic {
		return false
	}
	e.OK, e.Panic, e.Err = out.OK, out.Panic, out.Err
	return true
}
