package main

// C18: the real key builders and identifier functions, called on enumerated and seeded-random
// inputs; each call is logged as <function, atoms, result bytes> and TLC checks the result
// against the transcription of the layout in Keys.tla (KeysTrace.tla).

import (
	"bufio"
	"bytes"
	"encoding/json"
	"math"
	"math/rand"
	"os"

	sdk "github.com/cosmos/cosmos-sdk/types"

	"github.com/irismod/service/types"
)

type KeyLine struct {
	Fn    string           `json:"fn"`
	A     map[string][]int `json:"a"` // byte atoms
	N     map[string]int64 `json:"n"` // integer atoms (< 2^31)
	Bytes []int            `json:"bytes"`
	// identifier functions only: what the splitting function returned for `bytes`
	Split  map[string]int64 `json:"split,omitempty"`
	SplitA map[string][]int `json:"splita,omitempty"`
	Err    bool             `json:"err"`
}

func ints(b []byte) []int {
	r := make([]int, len(b))
	for i, x := range b {
		r[i] = int(x)
	}
	return r
}

func KeysRun(path string, seed int64) map[string]interface{} {
	f, err := os.Create(path)
	if err != nil {
		panic(err)
	}
	w := bufio.NewWriter(f)
	n := 0
	fns := map[string]int{}
	emit := func(l KeyLine) {
		if l.A == nil {
			l.A = map[string][]int{}
		}
		if l.N == nil {
			l.N = map[string]int64{}
		}
		b, _ := json.Marshal(l)
		w.Write(b)
		w.WriteByte('\n')
		n++
		fns[l.Fn]++
	}
	r := rand.New(rand.NewSource(seed))
	randBytes := func(k int) []byte {
		b := make([]byte, k)
		r.Read(b)
		return b
	}
	svcs := []string{"s", "s1", "s-1", "test-service", "a_b", "S9"}
	addrs := [][]byte{addrOf("p1"), addrOf("o1"), bytes.Repeat([]byte{0}, 20), bytes.Repeat([]byte{0xff}, 20), randBytes(20), randBytes(20)}
	denoms := []string{"stake", "foo"}
	smallInts := []int64{0, 1, 2, 255, 256, 65535, 65536, math.MaxInt32}
	hashes := [][]byte{bytes.Repeat([]byte{0}, 32), bytes.Repeat([]byte{0xff}, 32), randBytes(32), randBytes(32)}
	var cids [][]byte
	for _, h := range hashes {
		for _, i := range []int64{0, 1, 256, math.MaxInt32} {
			id := types.GenerateRequestContextID(append([]byte{}, h...), i)
			cids = append(cids, id)
			hh, idx, err := types.SplitRequestContextID(id)
			emit(KeyLine{Fn: "CtxID", A: map[string][]int{"hash": ints(h)}, N: map[string]int64{"idx": i}, Bytes: ints(id),
				SplitA: map[string][]int{"hash": ints(hh)}, Split: map[string]int64{"idx": idx}, Err: err != nil})
		}
	}
	var rids [][]byte
	for _, c := range cids[:6] {
		for _, b := range []int64{0, 1, 257, math.MaxInt32} {
			for _, h := range []int64{1, 300, math.MaxInt32} {
				for _, i := range []int64{0, 1, 9, 32767} {
					id := types.GenerateRequestID(c, uint64(b), h, int16(i))
					rids = append(rids, id)
					cc, bb, hh, ii, err := types.SplitRequestID(id)
					emit(KeyLine{Fn: "ReqID", A: map[string][]int{"cid": ints(c)}, N: map[string]int64{"b": b, "h": h, "i": i}, Bytes: ints(id),
						SplitA: map[string][]int{"cid": ints(cc)}, Split: map[string]int64{"b": int64(bb), "h": hh, "i": int64(ii)}, Err: err != nil})
				}
			}
		}
	}
	for _, s := range svcs {
		emit(KeyLine{Fn: "K01", A: map[string][]int{"svc": ints([]byte(s))}, Bytes: ints(types.GetServiceDefinitionKey(s))})
		emit(KeyLine{Fn: "P02", A: map[string][]int{"svc": ints([]byte(s))}, Bytes: ints(types.GetBindingsSubspace(s))})
		for _, a := range addrs {
			bp := ints([]byte(sdk.AccAddress(a).String()))
			emit(KeyLine{Fn: "K02", A: map[string][]int{"svc": ints([]byte(s)), "bprov": bp}, Bytes: ints(types.GetServiceBindingKey(s, a))})
			emit(KeyLine{Fn: "K06", A: map[string][]int{"svc": ints([]byte(s)), "bprov": bp}, Bytes: ints(types.GetPricingKey(s, a))})
			emit(KeyLine{Fn: "P14", A: map[string][]int{"svc": ints([]byte(s)), "bprov": bp}, Bytes: ints(types.GetActiveRequestSubspace(s, a))})
			emit(KeyLine{Fn: "P03", A: map[string][]int{"owner": ints(a), "svc": ints([]byte(s))}, Bytes: ints(types.GetOwnerBindingsSubspace(a, s))})
			for _, o := range addrs[:3] {
				emit(KeyLine{Fn: "K03", A: map[string][]int{"owner": ints(o), "svc": ints([]byte(s)), "prov": ints(a)}, Bytes: ints(types.GetOwnerServiceBindingKey(o, s, a))})
				bc := ints([]byte(sdk.AccAddress(o).String()))
				emit(KeyLine{Fn: "K17", A: map[string][]int{"bcons": bc, "svc": ints([]byte(s)), "bprov": bp}, Bytes: ints(types.GetRequestVolumeKey(o, s, a))})
			}
			for _, e := range smallInts[:4] {
				rid := rids[r.Intn(len(rids))]
				emit(KeyLine{Fn: "K14", A: map[string][]int{"svc": ints([]byte(s)), "bprov": bp, "rid": ints(rid)}, N: map[string]int64{"exp": e},
					Bytes: ints(types.GetActiveRequestKey(s, a, e, rid))})
			}
		}
	}
	for _, a := range addrs {
		emit(KeyLine{Fn: "K04", A: map[string][]int{"prov": ints(a)}, Bytes: ints(types.GetOwnerKey(a))})
		emit(KeyLine{Fn: "K07", A: map[string][]int{"owner": ints(a)}, Bytes: ints(types.GetWithdrawAddrKey(a))})
		emit(KeyLine{Fn: "P05", A: map[string][]int{"owner": ints(a)}, Bytes: ints(types.GetOwnerProvidersSubspace(a))})
		emit(KeyLine{Fn: "P18", A: map[string][]int{"prov": ints(a)}, Bytes: ints(types.GetEarnedFeesSubspace(a))})
		emit(KeyLine{Fn: "P19", A: map[string][]int{"owner": ints(a)}, Bytes: ints(types.GetOwnerEarnedFeesSubspace(a))})
		for _, d := range denoms {
			emit(KeyLine{Fn: "K18", A: map[string][]int{"prov": ints(a), "denom": ints([]byte(d))}, Bytes: ints(types.GetEarnedFeesKey(a, d))})
			emit(KeyLine{Fn: "K19", A: map[string][]int{"owner": ints(a)}, Bytes: ints(types.GetOwnerEarnedFeesKey(a, d))})
		}
		for _, o := range addrs {
			emit(KeyLine{Fn: "K05", A: map[string][]int{"owner": ints(o), "prov": ints(a)}, Bytes: ints(types.GetOwnerProviderKey(o, a))})
		}
	}
	for _, c := range cids {
		emit(KeyLine{Fn: "K08", A: map[string][]int{"cid": ints(c)}, Bytes: ints(types.GetRequestContextKey(c))})
		emit(KeyLine{Fn: "K11", A: map[string][]int{"cid": ints(c)}, Bytes: ints(types.GetExpiredRequestBatchHeightKey(c))})
		emit(KeyLine{Fn: "K12", A: map[string][]int{"cid": ints(c)}, Bytes: ints(types.GetNewRequestBatchHeightKey(c))})
		for _, h := range smallInts {
			emit(KeyLine{Fn: "K09", A: map[string][]int{"cid": ints(c)}, N: map[string]int64{"h": h}, Bytes: ints(types.GetExpiredRequestBatchKey(c, h))})
			emit(KeyLine{Fn: "K10", A: map[string][]int{"cid": ints(c)}, N: map[string]int64{"h": h}, Bytes: ints(types.GetNewRequestBatchKey(c, h))})
			emit(KeyLine{Fn: "P13", A: map[string][]int{"cid": ints(c)}, N: map[string]int64{"b": h}, Bytes: ints(types.GetRequestSubspaceByReqCtx(c, uint64(h)))})
			emit(KeyLine{Fn: "P15", A: map[string][]int{"cid": ints(c)}, N: map[string]int64{"b": h}, Bytes: ints(types.GetActiveRequestSubspaceByReqCtx(c, uint64(h)))})
			emit(KeyLine{Fn: "P16", A: map[string][]int{"cid": ints(c)}, N: map[string]int64{"b": h}, Bytes: ints(types.GetResponseSubspaceByReqCtx(c, uint64(h)))})
		}
	}
	for _, h := range smallInts {
		emit(KeyLine{Fn: "P09", N: map[string]int64{"h": h}, Bytes: ints(types.GetExpiredRequestBatchSubspace(h))})
		emit(KeyLine{Fn: "P10", N: map[string]int64{"h": h}, Bytes: ints(types.GetNewRequestBatchSubspace(h))})
	}
	for i := 0; i < 40; i++ {
		rid := rids[r.Intn(len(rids))]
		emit(KeyLine{Fn: "K13", A: map[string][]int{"rid": ints(rid)}, Bytes: ints(types.GetRequestKey(rid))})
		emit(KeyLine{Fn: "K15", A: map[string][]int{"rid": ints(rid)}, Bytes: ints(types.GetActiveRequestKeyByID(rid))})
		emit(KeyLine{Fn: "K16", A: map[string][]int{"rid": ints(rid)}, Bytes: ints(types.GetResponseKey(rid))})
	}
	w.Flush()
	f.Close()
	return map[string]interface{}{"lines": n, "functions": fns}
}
