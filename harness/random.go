package main

// S3: the state-aware random driver.  Seeded; picks existing and non-existing ids, rightful
// and foreign signers, boundary amounts and times.  All addresses are 20 bytes.

import (
	"math/rand"
)

type Gen struct {
	R      *rand.Rand
	Owners []string
	Provs  []string
	Cons   []string
	All    []string
	Svcs   []string
	queue  []Ev // operations already decided (the rest of a transaction)
}

func NewGen(seed int64) *Gen {
	return &Gen{
		R:      rand.New(rand.NewSource(seed)),
		Owners: []string{"o1", "o2"},
		Provs:  []string{"p1", "p2", "p3", "pz"},
		Cons:   []string{"c1", "c2"},
		All:    PoolNames,
		Svcs:   []string{"s1", "s2", "s", "s-1", "S1"},
	}
}

func (g *Gen) pick(xs []string) string { return xs[g.R.Intn(len(xs))] }
func (g *Gen) chance(p float64) bool   { return g.R.Float64() < p }
func (g *Gen) in(xs ...int64) int64    { return xs[g.R.Intn(len(xs))] }

var paramSets = []MParams{
	{MaxTimeout: 6, Multiple: 2, MinDeposit: 10, Tax: 100, Slash: 100, RefundDelay: 6},
	{MaxTimeout: 4, Multiple: 3, MinDeposit: 5, Tax: 0, Slash: 1000, RefundDelay: 4},
	{MaxTimeout: 8, Multiple: 2, MinDeposit: 12, Tax: 333, Slash: 0, RefundDelay: 3},
	{MaxTimeout: 5, Multiple: 1, MinDeposit: 20, Tax: 50, Slash: 500, RefundDelay: 8},
	{MaxTimeout: 100, Multiple: 200, MinDeposit: 6000, Tax: 100, Slash: 1, RefundDelay: 20},
	{MaxTimeout: 5, Multiple: 4, MinDeposit: 0, Tax: 100, Slash: 250, RefundDelay: 5}, // no global minimum: the price alone bounds the deposit
}

func (g *Gen) Reset(tag string) Ev {
	p := paramSets[g.R.Intn(len(paramSets))]
	bal := map[string]int64{}
	rich := int64(200)
	if p.MinDeposit > 1000 {
		rich = 3000000
	}
	for _, n := range PoolNames {
		switch n[0] {
		case 'o':
			bal[n] = rich * g.in(1, 2, 5)
		case 'c':
			bal[n] = g.in(0, 3, 10, 40, 200)
		case 'p':
			bal[n] = g.in(0, 5, 50)
		default:
			bal[n] = g.in(0, 7)
		}
	}
	return Ev{Name: "reset", RParams: &p, RBal: bal, Tag: tag}
}

func (g *Gen) pricing(st *State) MPricing {
	pr := MPricing{PT: []PromoT{}, PV: []PromoV{}}
	if st.Params.MinDeposit > 1000 {
		pr.Price = g.in(0, 1, 2, 5, 30, 100, 1000)
	} else {
		pr.Price = g.in(0, 1, 1, 2, 3, 3, 5, 7, 8, 9, 12, 25)
	}
	if g.chance(0.5) {
		n := 1 + g.R.Intn(3)
		t := st.Now - 6 + int64(g.R.Intn(8))
		for i := 0; i < n; i++ {
			e := t + 1 + int64(g.R.Intn(5))
			pr.PT = append(pr.PT, PromoT{S: t, E: e, D: g.in(10, 25, 50, 50, 75, 75, 99, 1)})
			t = e + int64(g.R.Intn(3))
		}
		if g.chance(0.05) && len(pr.PT) > 1 { // out of order: rejected by the pricing rules
			pr.PT[0], pr.PT[1] = pr.PT[1], pr.PT[0]
		}
	}
	if g.chance(0.4) {
		n := 1 + g.R.Intn(3)
		v := int64(1 + g.R.Intn(2))
		for i := 0; i < n; i++ {
			pr.PV = append(pr.PV, PromoV{V: v, D: g.in(10, 30, 50, 50, 75, 90, 5)})
			v += int64(g.R.Intn(3)) // equal volumes are accepted by the rules
		}
		if g.chance(0.05) && len(pr.PV) > 1 && pr.PV[0].V != pr.PV[1].V {
			pr.PV[0], pr.PV[1] = pr.PV[1], pr.PV[0]
		}
	}
	return pr
}

func minDep(st *State, price int64) int64 {
	m := price * st.Params.Multiple
	if m < st.Params.MinDeposit {
		m = st.Params.MinDeposit
	}
	return m
}

func (g *Gen) provSeq() []string {
	perm := g.R.Perm(len(g.Provs))
	n := 1 + g.R.Intn(len(g.Provs))
	r := []string{}
	for _, i := range perm[:n] {
		r = append(r, g.Provs[i])
	}
	if g.chance(0.05) {
		r = append(r, "w1") // a provider nobody bound
	}
	return r
}

// paramOp: governance changes one or two module parameters while bindings and contexts exist
func (g *Gen) paramOp(st *State) Ev {
	p := st.Params
	p.Lax = false
	for i := 0; i < 1+g.R.Intn(2); i++ {
		switch g.R.Intn(6) {
		case 0:
			p.MaxTimeout = g.in(1, 2, 3, p.MaxTimeout+2)
		case 1:
			p.Slash = g.in(0, 1, 100, 500, 1000)
		case 2:
			p.Tax = g.in(0, 50, 100, 333, 999)
		case 3:
			p.MinDeposit = g.in(0, 1, p.MinDeposit/2+1, p.MinDeposit+3, p.MinDeposit*2)
		case 4:
			p.Multiple = g.in(1, 2, p.Multiple+1)
		default:
			p.RefundDelay = g.in(2, 3, 4, p.RefundDelay+2)
		}
	}
	if g.chance(0.15) { // a proposal the module's validators have to refuse
		switch g.R.Intn(5) {
		case 0:
			p.Slash = g.in(-1, -500, 1001, 1500)
		case 1:
			p.Tax = g.in(-1, 1000, 1200)
		case 2:
			p.MaxTimeout = g.in(0, -1)
		case 3:
			p.Multiple = g.in(0, -2)
		default:
			p.RefundDelay = 0 // (a lock of no time at all)
		}
	}
	return Ev{Name: "SetParams", RParams: &p}
}

// Next produces the next operation given the current abstract state
func (g *Gen) Next(st *State) Ev {
	if len(g.queue) > 0 {
		e := g.queue[0]
		g.queue = g.queue[1:]
		return e
	}
	if g.chance(0.03) { // a transaction of several messages: all or nothing
		g.queue = nil
		for i := 0; i < 2+g.R.Intn(3); i++ {
			for {
				e := g.next1(st)
				switch e.Name {
				case "EndBlock", "SetParams", "ModCreate", "ModPause", "ModStart", "ModKill", "ModUpdate":
					continue
				}
				g.queue = append(g.queue, e)
				break
			}
		}
		if g.chance(0.5) { // ... whose last message is bound to fail
			g.queue = append(g.queue, Ev{Name: "RefundDeposit", Signer: "w1", Svc: "zz", Prov: "w1"})
		}
		g.queue = append(g.queue, Ev{Name: "TxEnd"})
		return Ev{Name: "TxBegin"}
	}
	return g.next1(st)
}

func (g *Gen) next1(st *State) Ev {
	r := g.R.Float64()
	nb := len(st.Bind)
	switch {
	case len(st.Defs) == 0 || r < 0.02:
		return Ev{Name: "Define", Signer: g.pick(g.All), Svc: g.pick(g.Svcs)}
	case nb < 2 && r < 0.5 || r < 0.06:
		return g.bind(st)
	case r < 0.34:
		return Ev{Name: "EndBlock", Dt: g.in(1, 1, 1, 2, 3, st.Params.RefundDelay)}
	case r < 0.44:
		return g.call(st)
	case r < 0.60:
		return g.respond(st)
	case r < 0.70:
		return g.ctxOp(st)
	case r < 0.80:
		return g.bindingOp(st)
	case r < 0.84:
		return g.withdraw(st)
	case r < 0.86:
		signer := g.pick(g.Owners)
		if len(st.POwner) > 0 && g.chance(0.5) {
			signer = st.POwner[g.R.Intn(len(st.POwner))].O
		}
		return Ev{Name: "SetWithdrawAddr", Signer: signer, Addr: g.pick([]string{"w1", "c1", "o1", "o2"})}
	case r < 0.90:
		return Ev{Name: "BankSend", Signer: g.pick(g.All), To: g.pick(g.All), Amount: g.in(1, 2, 5, 20)}
	case r < 0.94:
		return g.modOp(st)
	case r < 0.955:
		return g.paramOp(st)
	default:
		return g.shapeOp(st)
	}
}

func (g *Gen) bind(st *State) Ev {
	pr := g.pricing(st)
	svc := "s1"
	if len(st.Defs) > 0 && g.chance(0.8) {
		svc = st.Defs[g.R.Intn(len(st.Defs))].Name
	} else {
		svc = g.pick(g.Svcs)
	}
	md := minDep(st, pr.Price)
	dep := md + g.in(0, 0, 1, 2, md/2, md)
	if g.chance(0.1) {
		dep = md - 1
	}
	if dep < 1 { // (no global minimum and a price of zero: any deposit will do)
		dep = 1
	}
	owner, prov := g.pick(g.Owners), g.pick(g.Provs)
	if g.chance(0.12) {
		owner = prov // a provider that is its own owner
	} else if g.chance(0.06) {
		prov = g.pick(g.Owners) // an owner's own account used as a provider (possibly of the other owner)
	}
	return Ev{Name: "Bind", Signer: owner, Svc: svc, Prov: prov, Deposit: dep, DShape: "ok",
		Pr: pr, Qos: g.in(1, 1, 2, 3, st.Params.MaxTimeout, st.Params.MaxTimeout+1)}
}

func (g *Gen) call(st *State) Ev {
	svc := g.pick(g.Svcs)
	if len(st.Defs) > 0 && g.chance(0.9) {
		svc = st.Defs[g.R.Intn(len(st.Defs))].Name
	}
	t := g.in(1, 1, 2, 2, 3, st.Params.MaxTimeout, st.Params.MaxTimeout+1)
	e := Ev{Name: "Call", Signer: g.pick(g.Cons), Svc: svc, Provs: g.provSeq(), Cap: g.in(1, 2, 3, 5, 10, 100),
		Timeout: t, Super: g.chance(0.1), Rep: g.chance(0.6)}
	if g.chance(0.1) {
		e.Signer = g.pick(g.All)
	}
	if g.chance(0.02) { // (stateless validation must refuse a timeout that is not positive)
		e.Timeout = g.in(0, -1, -3)
	}
	if e.Rep {
		e.Freq = g.in(0, t, t+1, t+2, t+3)
		e.Total = g.in(-1, 1, 2, 3, 5)
	}
	return e
}

// nearby: an account that has to do with the request but is not its provider
func (g *Gen) nearby(st *State, q ReqRec) string {
	var c []string
	for _, po := range st.POwner {
		if po.P == q.Prov && po.O != q.Prov {
			c = append(c, po.O)
		}
	}
	for _, x := range st.Ctx {
		if x.ID == int(q.Rid[0]) {
			c = append(c, x.Cons)
			for _, p := range x.Provs {
				if p != q.Prov {
					c = append(c, p)
				}
			}
		}
	}
	if len(c) == 0 {
		return g.pick(g.All)
	}
	return c[g.R.Intn(len(c))]
}

func (g *Gen) respond(st *State) Ev {
	kind := g.pick([]string{"valid", "valid", "valid", "none", "bad"})
	if len(st.ActId) > 0 && g.chance(0.85) {
		a := st.ActId[g.R.Intn(len(st.ActId))]
		for _, q := range st.Req {
			if q.Rid == a {
				signer := q.Prov
				if g.chance(0.08) {
					signer = g.pick(g.All)
					if g.chance(0.5) { // the provider's owner, the consumer: close to the request, not its provider
						signer = g.nearby(st, q)
					}
				}
				return Ev{Name: "Respond", Signer: signer, Rid: q.Rid, Kind: kind}
			}
		}
	}
	if len(st.Req) > 0 && g.chance(0.93) {
		q := st.Req[g.R.Intn(len(st.Req))]
		signer := q.Prov
		if g.chance(0.08) {
			signer = g.pick(g.All)
		}
		return Ev{Name: "Respond", Signer: signer, Rid: q.Rid, Kind: kind}
	}
	// a request that does not exist (any more)
	id := int64(1 + g.R.Intn(st.NCtx+1))
	return Ev{Name: "Respond", Signer: g.pick(g.Provs), Rid: [4]int64{id, g.in(1, 2, 3), g.in(1, st.Height-1, st.Height), g.in(0, 1)}, Kind: kind}
}

func (g *Gen) ctxID(st *State) int {
	if len(st.Ctx) > 0 && g.chance(0.92) {
		return st.Ctx[g.R.Intn(len(st.Ctx))].ID
	}
	return 1 + g.R.Intn(st.NCtx+2)
}

func (g *Gen) consOf(st *State, id int) string {
	for _, c := range st.Ctx {
		if c.ID == id {
			if g.chance(0.9) {
				return c.Cons
			}
		}
	}
	return g.pick(g.All)
}

func (g *Gen) ctxOp(st *State) Ev {
	id := g.ctxID(st)
	signer := g.consOf(st, id)
	switch g.R.Intn(5) {
	case 0:
		return Ev{Name: "Pause", Signer: signer, ID: id}
	case 1:
		return Ev{Name: "Start", Signer: signer, ID: id}
	case 2:
		if g.chance(0.5) {
			return Ev{Name: "Start", Signer: signer, ID: id}
		}
		return Ev{Name: "Kill", Signer: signer, ID: id}
	default:
		e := Ev{Name: "UpdateContext", Signer: signer, ID: id}
		if g.chance(0.3) {
			e.Provs = g.provSeq()
		}
		if g.chance(0.3) {
			e.Cap = g.in(1, 2, 5, 50)
			e.CapShape = "ok"
		}
		if g.chance(0.3) {
			e.Timeout = g.in(1, 2, 3, st.Params.MaxTimeout+1)
		}
		if g.chance(0.3) {
			e.Freq = g.in(1, 2, 3, 4, 6)
		}
		if g.chance(0.4) {
			e.Total = g.in(-1, 1, 2, 3, 4, 6)
		}
		return e
	}
}

func (g *Gen) bindingOp(st *State) Ev {
	if len(st.Bind) == 0 {
		return g.bind(st)
	}
	b := st.Bind[g.R.Intn(len(st.Bind))]
	signer := b.Owner
	if g.chance(0.08) {
		signer = g.pick(g.All)
	}
	svc, prov := b.Svc, b.Prov
	if g.chance(0.05) {
		prov = g.pick(g.Provs)
	}
	switch g.R.Intn(6) {
	case 0:
		return Ev{Name: "Disable", Signer: signer, Svc: svc, Prov: prov}
	case 1:
		e := Ev{Name: "Enable", Signer: signer, Svc: svc, Prov: prov}
		if g.chance(0.6) {
			short := minDep(st, b.Sp.Price) - b.Dep
			e.Deposit = g.in(1, 2, 5)
			if short > 0 {
				e.Deposit = short + g.in(-1, 0, 0, 1)
			}
			if e.Deposit <= 0 {
				e.Deposit = 1
			}
			e.DShape = "ok"
		}
		return e
	case 2, 3:
		return Ev{Name: "RefundDeposit", Signer: signer, Svc: svc, Prov: prov}
	default:
		e := Ev{Name: "UpdateBinding", Signer: signer, Svc: svc, Prov: prov}
		if g.chance(0.5) {
			e.HasPr = true
			e.Pr = g.pricing(st)
		}
		if g.chance(0.4) {
			e.Deposit = g.in(1, 2, 5, st.Params.MinDeposit)
			if e.HasPr {
				need := minDep(st, e.Pr.Price) - b.Dep
				if need > 0 && g.chance(0.7) {
					e.Deposit = need + g.in(-1, 0, 0)
					if e.Deposit <= 0 {
						e.Deposit = 1
					}
				}
			}
			e.DShape = "ok"
		}
		if g.chance(0.3) {
			e.Qos = g.in(1, 2, 3, st.Params.MaxTimeout+1)
		}
		return e
	}
}

func (g *Gen) withdraw(st *State) Ev {
	e := Ev{Name: "Withdraw", Signer: g.pick(g.Owners)}
	if len(st.OEarned) > 0 && g.chance(0.7) {
		e.Signer = st.OEarned[g.R.Intn(len(st.OEarned))].K
	}
	if len(st.Earned) > 0 && g.chance(0.6) {
		f := st.Earned[g.R.Intn(len(st.Earned))]
		e.Prov = f.K
		for _, po := range st.POwner {
			if po.P == f.K && g.chance(0.9) {
				e.Signer = po.O
			}
		}
	} else if g.chance(0.3) {
		e.Prov = g.pick(g.Provs)
	}
	return e
}

func (g *Gen) modOp(st *State) Ev {
	var mods []CtxRec
	for _, c := range st.Ctx {
		if c.Module != "" {
			mods = append(mods, c)
		}
	}
	if len(mods) == 0 || g.chance(0.3) {
		svc := g.pick(g.Svcs)
		if len(st.Defs) > 0 {
			svc = st.Defs[g.R.Intn(len(st.Defs))].Name
		}
		t := g.in(1, 2, 3)
		ps := g.provSeq()
		e := Ev{Name: "ModCreate", Signer: g.pick(g.Cons), Svc: svc, Provs: ps, Cap: g.in(2, 5, 100), Timeout: t,
			Rep: g.chance(0.6), Thr: int64(1 + g.R.Intn(len(ps)+1)), State: g.pick([]string{"running", "running", "paused"})}
		if e.Rep {
			e.Freq = g.in(0, t, t+1)
			e.Total = g.in(-1, 1, 2, 3)
		}
		if g.chance(0.05) { // a module that has not registered its state callback
			e.Module = ModNameRespOnly
		}
		if g.chance(0.4) { // a module that acts on its context from inside its callbacks
			e.RResp = g.pick([]string{"", "pause", "kill", "kill", "start", "start", "cap1"})
			e.RState = g.pick([]string{"", "", "kill", "pause", "cap1"})
			if g.chance(0.04) { // finding D14
				e.RState = "start"
			}
			if g.chance(0.4) { // ... or on another context: an earlier one, or the one created next
				e.RTgt = 1 + g.R.Intn(len(st.Ctx)+2)
			}
		}
		return e
	}
	c := mods[g.R.Intn(len(mods))]
	signer := c.Cons
	if g.chance(0.1) {
		signer = g.pick(g.All)
	}
	switch g.R.Intn(6) {
	case 0:
		return Ev{Name: "ModPause", Signer: signer, ID: c.ID}
	case 1:
		return Ev{Name: "ModStart", Signer: signer, ID: c.ID}
	case 2:
		return Ev{Name: "ModKill", Signer: signer, ID: c.ID}
	case 3:
		// a user message aimed at a module context: never allowed
		return Ev{Name: g.pick([]string{"Pause", "Start", "Kill", "UpdateContext"}), Signer: c.Cons, ID: c.ID, Total: 5}
	default:
		e := Ev{Name: "ModUpdate", Signer: signer, ID: c.ID}
		if g.chance(0.4) {
			e.Provs = g.provSeq()
		}
		if g.chance(0.4) {
			e.Thr = g.in(1, 2, 3, 4)
		}
		if g.chance(0.3) {
			e.Total = g.in(-1, 2, 4)
		}
		if g.chance(0.3) {
			e.Freq = g.in(2, 3, 5)
		}
		return e
	}
}

// message shapes that pass stateless validation at its boundaries
func (g *Gen) shapeOp(st *State) Ev {
	switch g.R.Intn(6) {
	case 0:
		e := g.bind(st)
		e.DShape = g.pick([]string{"empty", "other", "two"})
		return e
	case 1:
		e := g.bind(st)
		e.PrDenom = g.pick([]string{"foo", "foo", "HUGE"})
		return e
	case 2:
		e := g.call(st)
		e.CapShape = g.pick([]string{"empty", "other", "two"})
		return e
	case 3:
		e := g.call(st)
		e.InKind = "nohdr"
		return e
	case 4:
		e := g.bindingOp(st)
		if e.Name == "UpdateBinding" || e.Name == "Enable" {
			e.DShape = g.pick([]string{"other", "two", "huge"})
			e.Deposit = 3
			if e.Name == "UpdateBinding" && g.chance(0.3) {
				e.HasPr, e.PrDenom, e.DShape, e.Deposit = true, "HUGE", "none", 0
			}
		}
		return e
	default:
		e := g.ctxOp(st)
		if e.Name == "UpdateContext" {
			e.CapShape = g.pick([]string{"other", "two"})
			e.Cap = 3
		}
		return e
	}
}
