package main

import "fmt"

// S1, continued: the owning module calls the keeper again from inside its callbacks - it starts a paused
// context, lowers a fee cap, and acts on a context other than the one the callback is about.

func ReactScenarios() []History {
	var hs []History
	add := func(tag string, p *MParams, bal map[string]int64, ops ...Ev) {
		hs = append(hs, History{Reset: baseReset(tag, p, bal), Ops: ops})
	}
	rid := func(id, batch, h, idx int64) [4]int64 { return [4]int64{id, batch, h, idx} }
	mod := func(signer string, provs []string, t, f, n, thr int64, rr, rs string, tgt int) Ev {
		return Ev{Name: "ModCreate", Signer: signer, Svc: "s1", Provs: provs, Cap: 10, Timeout: t, Rep: true,
			Freq: f, Total: n, Thr: thr, RResp: rr, RState: rs, RTgt: tgt}
	}
	both := []string{"p1", "p2"}

	// the module starts its paused context again from the response callback: when the batch is answered in
	// full, and when it expires (frequency above the timeout: the next batch keeps its place)
	ops := registry(map[string]int64{"p1": 5, "p2": 3})
	ops = append(ops,
		mod("c1", both, 2, 3, 4, 1, "start", "", 0), // 1
		mod("c1", both, 4, 6, 4, 1, "start", "", 0), // 2
		eb(1),
		Ev{Name: "ModPause", Signer: "c1", ID: 1},
		Ev{Name: "ModPause", Signer: "c1", ID: 2},
		Ev{Name: "Respond", Signer: "p1", Rid: rid(1, 1, 1, 0), Kind: "valid"},
		Ev{Name: "Respond", Signer: "p2", Rid: rid(1, 1, 1, 1), Kind: "valid"}, // 1 started again, its expiry pending
		Ev{Name: "Obs"},
		eb(1), eb(1), eb(1), eb(1), // 1: batch 2 at height 4; 2: expires at 5, started by the callback, next batch at 7
		Ev{Name: "ModPause", Signer: "c1", ID: 1},
		eb(1), eb(1), eb(1), eb(1), eb(1), eb(1), eb(1),
	)
	add("module-starts-its-context-from-the-response-callback", smallParams(), map[string]int64{"c1": 300}, ops...)

	// the module acts on a sibling: the response callback of one context kills, pauses and starts another of
	// the same consumer - from a response message, and from the expiry phase with the sibling's own expiry
	// later in the same block or its next batch due in the same block
	ops = registry(map[string]int64{"p1": 5, "p2": 3})
	ops = append(ops,
		mod("c1", both, 2, 2, 5, 1, "kill", "", 2),  // 1: kills 2 when a batch of 1 completes
		mod("c1", both, 2, 2, 5, 1, "", "", 0),      // 2
		mod("c1", both, 2, 2, 5, 1, "start", "", 4), // 3: starts 4
		mod("c1", both, 2, 4, 5, 1, "pause", "", 3), // 4: pauses 3
		mod("c1", both, 3, 3, 5, 1, "cap1", "", 6),  // 5: lowers the cap of 6 below every price
		mod("c1", both, 3, 3, 5, 1, "", "", 0),      // 6
		eb(1),
		Ev{Name: "ModPause", Signer: "c1", ID: 4},
		Ev{Name: "Respond", Signer: "p1", Rid: rid(3, 1, 1, 0), Kind: "valid"},
		Ev{Name: "Respond", Signer: "p2", Rid: rid(3, 1, 1, 1), Kind: "valid"}, // 3 complete: starts 4 (its expiry pending)
		Ev{Name: "Obs"},
		eb(1), eb(1), // height 3: 1 expires first and kills 2, whose own expiry follows in the same block; 4 expires and pauses 3
		Ev{Name: "Obs"},
		eb(1), // height 4: 5 expires, lowers the cap of 6; the batch of 6 due in this block is skipped
		eb(1), eb(1), eb(1), eb(1), eb(1),
	)
	add("module-acts-on-a-sibling-context", smallParams(), map[string]int64{"c1": 400}, ops...)

	// a kill of a context that is not the module's own, and of one that does not exist: refused, nothing changes
	ops = registry(map[string]int64{"p1": 5, "p2": 3})
	ops = append(ops,
		Ev{Name: "Call", Signer: "c2", Svc: "s1", Provs: both, Cap: 10, Timeout: 2, Rep: true, Freq: 2, Total: 3}, // 1: a user's
		mod("c1", both, 2, 2, 3, 1, "kill", "", 1),  // 2: tries to kill the user context of another consumer
		mod("c1", both, 2, 2, 3, 1, "pause", "", 9), // 3: tries to pause a context that does not exist
		mod("c2", both, 2, 2, 3, 1, "", "", 0),      // 4
		mod("c1", both, 2, 2, 3, 1, "kill", "", 4),  // 5: tries to kill a module context of another consumer
		eb(1), eb(1), eb(1), eb(1), eb(1), eb(1), eb(1),
	)
	add("module-reaches-for-contexts-it-may-not-touch", smallParams(), map[string]int64{"c1": 400, "c2": 200}, ops...)

	// several contexts of one consumer due in the same block; the expensive ones cannot be paid, and their
	// module answers the state callback by lowering the cap of a cheap sibling below its provider's price:
	// a sibling that comes later in that block is judged against its new cap (skipped), one that came
	// earlier has been served.  Likewise at the expiry: a context killed by a sibling's response callback
	// earlier in the same block is removed when its own expiry comes.  (Three pairs in both orders of
	// creation: the order within a block is the order of the context ids, which are hashes.)
	cheap := []string{"p2"}
	ops = registry(map[string]int64{"p1": 9, "p2": 3})
	ops = append(ops,
		mod("c2", cheap, 2, 2, 3, 1, "", "", 0),         // 1 cheap
		mod("c2", both, 2, 2, 3, 1, "kill", "cap1", 1),  // 2 expensive: re-caps / kills 1
		mod("c2", both, 2, 2, 3, 1, "kill", "cap1", 4),  // 3 expensive: re-caps / kills 4
		mod("c2", cheap, 2, 2, 3, 1, "", "", 0),         // 4 cheap
		mod("c2", cheap, 2, 2, 3, 1, "", "", 0),         // 5 cheap
		mod("c2", both, 2, 2, 3, 1, "pause", "cap1", 5), // 6 expensive: re-caps / pauses 5
		// (a user's context is open to any module: w1 holds nothing, its module contexts are never paid for, and
		// they pause / kill contexts of c1 that are due in the same block - before or after them)
		Ev{Name: "Call", Signer: "c1", Svc: "s1", Provs: cheap, Cap: 10, Timeout: 2, Rep: true, Freq: 2, Total: 3}, // 7
		mod("w1", cheap, 2, 2, 3, 1, "", "pause", 7), // 8
		mod("w1", cheap, 2, 2, 3, 1, "", "kill", 10), // 9
		Ev{Name: "Call", Signer: "c1", Svc: "s1", Provs: cheap, Cap: 10, Timeout: 2, Rep: true, Freq: 2, Total: 3}, // 10
		Ev{Name: "Call", Signer: "c1", Svc: "s1", Provs: cheap, Cap: 10, Timeout: 2, Rep: true, Freq: 2, Total: 3}, // 11
		mod("w1", cheap, 2, 2, 3, 1, "", "kill", 11),  // 12
		mod("w1", cheap, 2, 2, 3, 1, "", "pause", 14), // 13
		Ev{Name: "Call", Signer: "c1", Svc: "s1", Provs: cheap, Cap: 10, Timeout: 2, Rep: true, Freq: 2, Total: 3}, // 14
		eb(1), // c2 holds 20: not enough for all the expensive ones (12 each)
		Ev{Name: "Obs"},
		Ev{Name: "BankSend", Signer: "o2", To: "c2", Amount: 400},
		Ev{Name: "ModStart", Signer: "c2", ID: 2}, Ev{Name: "ModStart", Signer: "c2", ID: 3}, Ev{Name: "ModStart", Signer: "c2", ID: 6},
		eb(1), eb(1), // height 3: the cheap ones expire; the expensive ones (started at 2) expire at 4 and kill / pause them
		eb(1), eb(1), eb(1), eb(1),
	)
	add("siblings-due-in-one-block", smallParams(), map[string]int64{"c2": 20}, ops...)

	// a module that registered a response callback only, and one that registered nothing, ask for a context
	ops = registry(map[string]int64{"p1": 5, "p2": 3})
	ops = append(ops,
		Ev{Name: "ModCreate", Module: ModNameRespOnly, Signer: "c1", Svc: "s1", Provs: both, Cap: 10, Timeout: 2, Rep: true, Freq: 2, Total: 3, Thr: 1},
		Ev{Name: "ModCreate", Module: ModNameNone, Signer: "c1", Svc: "s1", Provs: both, Cap: 10, Timeout: 2, Thr: 1},
		Ev{Name: "ModCreate", Module: ModNameRespOnly, Signer: "c2", Svc: "s1", Provs: both, Cap: 10, Timeout: 2, Rep: true, Freq: 2, Total: 3, Thr: 1},
		eb(1),
		// (were such a context opened, its consumer would now run out of funds for the second batch)
		Ev{Name: "Respond", Signer: "p1", Rid: rid(2, 1, 1, 0), Kind: "valid"},
		Ev{Name: "BankSend", Signer: "c2", To: "o2", Amount: 92},
		Ev{Name: "BankSend", Signer: "c2", To: "o2", Amount: 8},
		eb(1), eb(1), eb(1), eb(1),
	)
	add("modules-without-their-callbacks", smallParams(), nil, ops...)

	// transactions of several messages: all of them take effect or none.  A definition and a binding made by
	// the first messages of a transaction whose last message fails are gone (and can be made again); two calls
	// in one transaction share its hash and are told apart by the message index
	ops = registry(map[string]int64{"p1": 5, "p2": 3})
	ops = append(ops,
		Ev{Name: "TxBegin"},
		Ev{Name: "Define", Signer: "o2", Svc: "s2"},
		Ev{Name: "Bind", Signer: "o2", Svc: "s2", Prov: "p3", Deposit: 40, DShape: "ok", Pr: pr(4), Qos: 1},
		Ev{Name: "Call", Signer: "c1", Svc: "s2", Provs: []string{"p3"}, Cap: 10, Timeout: 2},
		Ev{Name: "Bind", Signer: "o2", Svc: "s2", Prov: "pz", Deposit: 3, DShape: "ok", Pr: pr(4), Qos: 1}, // too little: the transaction fails
		Ev{Name: "TxEnd"},
		Ev{Name: "Bind", Signer: "o1", Svc: "s2", Prov: "p1", Deposit: 40, DShape: "ok", Pr: pr(4), Qos: 1}, // s2 is not defined
		Ev{Name: "Call", Signer: "c1", Svc: "s2", Provs: []string{"p3"}, Cap: 10, Timeout: 2},
		Ev{Name: "Obs"},
		Ev{Name: "TxBegin"},
		Ev{Name: "Define", Signer: "o1", Svc: "s2"}, // by another author this time
		Ev{Name: "Bind", Signer: "o2", Svc: "s2", Prov: "p3", Deposit: 40, DShape: "ok", Pr: pr(2), Qos: 1}, // by the same owner as in the failed one
		Ev{Name: "Call", Signer: "c1", Svc: "s2", Provs: []string{"p3"}, Cap: 10, Timeout: 2},
		Ev{Name: "Call", Signer: "c2", Svc: "s1", Provs: both, Cap: 10, Timeout: 2, Rep: true, Freq: 2, Total: 2},
		Ev{Name: "TxEnd"},
		eb(1),
		Ev{Name: "TxBegin"},
		Ev{Name: "Respond", Signer: "p3", Rid: rid(1, 1, 1, 0), Kind: "valid"},
		Ev{Name: "Withdraw", Signer: "o2", Prov: "p3"},
		Ev{Name: "SetWithdrawAddr", Signer: "o2", Addr: "w1"},
		Ev{Name: "Respond", Signer: "p3", Rid: rid(1, 1, 1, 0), Kind: "valid"}, // answered already: everything is undone
		Ev{Name: "TxEnd"},
		Ev{Name: "Obs"},
		Ev{Name: "Respond", Signer: "p3", Rid: rid(1, 1, 1, 0), Kind: "valid"},
		eb(1), eb(1), eb(1),
		Ev{Name: "Withdraw", Signer: "o1"},
		// a price cut, a new provider and a new withdrawal address in a transaction that fails: none of them happened
		Ev{Name: "TxBegin"},
		Ev{Name: "UpdateBinding", Signer: "o2", Svc: "s2", Prov: "p3", HasPr: true, Pr: pr(1)},
		Ev{Name: "UpdateBinding", Signer: "o1", Svc: "s1", Prov: "p1", HasPr: true, Pr: pr(9), Deposit: 20, DShape: "ok"},
		Ev{Name: "Bind", Signer: "o2", Svc: "s2", Prov: "pz", Deposit: 40, DShape: "ok", Pr: pr(2), Qos: 1},
		Ev{Name: "SetWithdrawAddr", Signer: "o1", Addr: "c2"},
		Ev{Name: "Disable", Signer: "o2", Svc: "s1", Prov: "p1"}, // not o2's: the transaction fails
		Ev{Name: "TxEnd"},
		Ev{Name: "Call", Signer: "c1", Svc: "s2", Provs: []string{"p3", "pz"}, Cap: 10, Timeout: 2}, // p3 at its old price 2, pz unknown
		Ev{Name: "Call", Signer: "c1", Svc: "s1", Provs: both, Cap: 10, Timeout: 2},                  // p1 at its old price 5
		Ev{Name: "Bind", Signer: "o2", Svc: "s2", Prov: "pz", Deposit: 40, DShape: "ok", Pr: pr(2), Qos: 1}, // pz is still nobody's: o2 binds it, this time for good
		eb(1),
		Ev{Name: "Respond", Signer: "p3", Rid: rid(3, 1, 5, 0), Kind: "valid"},
		Ev{Name: "Respond", Signer: "p1", Rid: rid(4, 1, 5, 0), Kind: "bad"},
		Ev{Name: "Respond", Signer: "p2", Rid: rid(4, 1, 5, 1), Kind: "bad"},
		Ev{Name: "Respond", Signer: "pz", Rid: rid(3, 1, 5, 1), Kind: "valid"},
		Ev{Name: "Withdraw", Signer: "o1"},
		Ev{Name: "Withdraw", Signer: "o2"},
		eb(1), eb(1),
		Ev{Name: "Obs"},
	)
	add("transactions-of-several-messages", smallParams(), nil, ops...)

	// discounts spelled so that the stateless validation has to refuse them - "005" is five, "1.5" and "1" are no
	// discounts; were one accepted, a request under it would carry more than the base price
	ops = []Ev{
		{Name: "Define", Signer: "o1", Svc: "s1"},
		{Name: "Bind", Signer: "o1", Svc: "s1", Prov: "p1", Deposit: 400, DShape: "ok", Qos: 1,
			Pr: MPricing{Price: 3, PT: []PromoT{{S: NowOffset - 5, E: NowOffset + 50, D: 500, Raw: "005"}}, PV: []PromoV{}}},
		{Name: "Bind", Signer: "o1", Svc: "s1", Prov: "p2", Deposit: 400, DShape: "ok", Qos: 1,
			Pr: MPricing{Price: 3, PT: []PromoT{}, PV: []PromoV{{V: 0, D: 150, Raw: "1.5"}}}},
		{Name: "Bind", Signer: "o2", Svc: "s1", Prov: "p3", Deposit: 400, DShape: "ok", Qos: 1,
			Pr: MPricing{Price: 3, PT: []PromoT{{S: NowOffset - 5, E: NowOffset + 50, D: 100, Raw: "1"}}, PV: []PromoV{}}},
		{Name: "Bind", Signer: "o2", Svc: "s1", Prov: "pz", Deposit: 400, DShape: "ok", Qos: 1,
			Pr: MPricing{Price: 3, PT: []PromoT{{S: NowOffset - 5, E: NowOffset + 50, D: 50, Raw: "0.50"}}, PV: []PromoV{}}},
		{Name: "Call", Signer: "c1", Svc: "s1", Provs: []string{"p1", "p2", "p3", "pz"}, Cap: 100, Timeout: 2},
		eb(1), eb(1), eb(1),
	}
	add("discounts-that-are-none", smallParams(), nil, ops...)

	// odds and ends at their boundaries: a consumer who holds exactly the price of a batch; a one-shot context
	// of a module whose consumer cannot pay; a withdrawal address chosen, changed and set back to the owner,
	// and one chosen by an account that owns nothing (yet) when the chain is exported; an owner whose own
	// account is another owner's provider; the read paths while a binding with pending requests is disabled
	ops = registry(map[string]int64{"p1": 5, "p2": 3})
	ops = append(ops,
		Ev{Name: "SetWithdrawAddr", Signer: "o1", Addr: "w1"},
		Ev{Name: "SetWithdrawAddr", Signer: "c1", Addr: "w1"}, // c1 owns no provider
		Ev{Name: "Bind", Signer: "o2", Svc: "s1", Prov: "o1", Deposit: 40, DShape: "ok", Pr: pr(2), Qos: 1}, // o1's account is o2's provider
		Ev{Name: "SetWithdrawAddr", Signer: "o2", Addr: "c2"},
		// the provider account is not the owner of its binding: it can do nothing with it
		Ev{Name: "Disable", Signer: "p2", Svc: "s1", Prov: "p2"},
		Ev{Name: "UpdateBinding", Signer: "p2", Svc: "s1", Prov: "p2", Qos: 2},
		Ev{Name: "UpdateBinding", Signer: "p2", Svc: "s1", Prov: "p2", Deposit: 5, DShape: "ok"},
		Ev{Name: "Withdraw", Signer: "p2", Prov: "p2"},
		Ev{Name: "Disable", Signer: "o1", Svc: "s1", Prov: "p2"},
		Ev{Name: "Enable", Signer: "p2", Svc: "s1", Prov: "p2"},
		Ev{Name: "RefundDeposit", Signer: "p2", Svc: "s1", Prov: "p2"},
		Ev{Name: "Enable", Signer: "o1", Svc: "s1", Prov: "p2"},
		Ev{Name: "Define", Signer: "o2", Svc: "s2"},
		Ev{Name: "Bind", Signer: "p1", Svc: "s2", Prov: "p1", Deposit: 40, DShape: "ok", Pr: pr(2), Qos: 1}, // p1 is o1's provider: it cannot bind itself
		Ev{Name: "Bind", Signer: "p3", Svc: "s2", Prov: "p3", Deposit: 40, DShape: "ok", Pr: pr(2), Qos: 1}, // p3 belongs to nobody yet: it can
		Ev{Name: "Bind", Signer: "o2", Svc: "s1", Prov: "p3", Deposit: 40, DShape: "ok", Pr: pr(2), Qos: 1}, // ... and is then its own, not o2's
		Ev{Name: "Call", Signer: "c2", Svc: "s1", Provs: both, Cap: 10, Timeout: 3},                  // 1: c2 holds exactly 8
		Ev{Name: "ModCreate", Signer: "w1", Svc: "s1", Provs: both, Cap: 10, Timeout: 2, Thr: 1},     // 2: one-shot, of a consumer who holds nothing
		Ev{Name: "Call", Signer: "c1", Svc: "s1", Provs: []string{"o1", "p1"}, Cap: 10, Timeout: 3}, // 3
		eb(1),
		Ev{Name: "Obs"},
		Ev{Name: "Disable", Signer: "o1", Svc: "s1", Prov: "p1"},
		Ev{Name: "Obs"}, // p1's binding is unavailable and has two requests pending
		Ev{Name: "Respond", Signer: "p1", Rid: rid(1, 1, 1, 0), Kind: "valid"},
		Ev{Name: "Respond", Signer: "o1", Rid: rid(3, 1, 1, 0), Kind: "valid"},
		Ev{Name: "SetWithdrawAddr", Signer: "o1", Addr: "o1"}, // back to the owner itself
		Ev{Name: "Withdraw", Signer: "o1", Prov: "p1"},
		Ev{Name: "Withdraw", Signer: "o2"},
		Ev{Name: "Obs"},
		eb(1), eb(1), eb(1),
		Ev{Name: "Withdraw", Signer: "o1"},
		// p3 is its own owner and also owns pz: a withdrawal naming p3 itself is for that one provider
		Ev{Name: "Bind", Signer: "p3", Svc: "s1", Prov: "p3", Deposit: 20, DShape: "ok", Pr: pr(2), Qos: 1},
		Ev{Name: "Bind", Signer: "p3", Svc: "s1", Prov: "pz", Deposit: 20, DShape: "ok", Pr: pr(3), Qos: 1},
		Ev{Name: "Call", Signer: "c1", Svc: "s1", Provs: []string{"p3", "pz"}, Cap: 10, Timeout: 2},
		// a module context over two providers with threshold 2, narrowed to one provider while its batch is out
		Ev{Name: "ModCreate", Signer: "c1", Svc: "s1", Provs: []string{"p3", "pz"}, Cap: 10, Timeout: 3, Rep: true, Freq: 3, Total: 3, Thr: 2},
		eb(1),
		Ev{Name: "Respond", Signer: "p3", Rid: rid(4, 1, 5, 0), Kind: "valid"},
		Ev{Name: "Respond", Signer: "pz", Rid: rid(4, 1, 5, 1), Kind: "valid"},
		Ev{Name: "Withdraw", Signer: "p3", Prov: "p3"},
		Ev{Name: "Obs"},
		Ev{Name: "Withdraw", Signer: "p3"},
		Ev{Name: "ModUpdate", Signer: "c1", ID: 5, Provs: []string{"p3"}, Thr: 1},
		// a one-shot context whose consumer gave it a frequency and a total (the only update a one-shot accepts),
		// still inside its window at the export
		Ev{Name: "Call", Signer: "c1", Svc: "s1", Provs: []string{"p3"}, Cap: 10, Timeout: 5},
		eb(1),
		Ev{Name: "UpdateContext", Signer: "c1", ID: 6, Freq: 6, Total: 2},
		Ev{Name: "PrepZeroHeight"},
		Ev{Name: "Genesis"},
		Ev{Name: "Restart"},
		Ev{Name: "Bind", Signer: "c1", Svc: "s1", Prov: "c1", Deposit: 40, DShape: "ok", Pr: pr(2), Qos: 1}, // c1 becomes an owner on the new chain
		Ev{Name: "Call", Signer: "c2", Svc: "s1", Provs: []string{"c1"}, Cap: 10, Timeout: 2},
		eb(1),
		Ev{Name: "Respond", Signer: "c1", Rid: rid(7, 1, 1, 0), Kind: "valid"},
		Ev{Name: "Withdraw", Signer: "c1"}, // to the address it chose on the old chain
	)
	add("odds-and-ends-at-their-boundaries", smallParams(), map[string]int64{"c2": 8, "c1": 200, "p1": 100, "p3": 100}, ops...)

	// a fee with a fractional part above one half (3 x 0.9 = 2.7: the fee is 2), refunded from an escrow that
	// holds nothing else: a malformed answer to the only request in flight after the owner has withdrawn.
	// And time promotions whose windows start and end between two whole seconds, with blocks inside the
	// same second before, at and after those instants.
	ops = []Ev{
		{Name: "Define", Signer: "o1", Svc: "s1"},
		{Name: "Bind", Signer: "o1", Svc: "s1", Prov: "p1", Deposit: 40, DShape: "ok", Qos: 1,
			Pr: MPricing{Price: 3, PT: []PromoT{}, PV: []PromoV{{V: 1, D: 90}}}},
		{Name: "Bind", Signer: "o1", Svc: "s1", Prov: "p2", Deposit: 400, DShape: "ok", Qos: 1,
			Pr: MPricing{Price: 10, PT: []PromoT{{S: NowOffset + 13, E: NowOffset + 27, D: 50}}, PV: []PromoV{}}}, // 1.3 s to 2.7 s
		{Name: "Call", Signer: "c1", Svc: "s1", Provs: []string{"p1"}, Cap: 10, Timeout: 2},
		eb(1),
		{Name: "Respond", Signer: "p1", Rid: rid(1, 1, 1, 0), Kind: "valid"},
		{Name: "Withdraw", Signer: "o1"},
		{Name: "Call", Signer: "c1", Svc: "s1", Provs: []string{"p1"}, Cap: 10, Timeout: 2},
		eb(1),
		{Name: "Respond", Signer: "p1", Rid: rid(2, 1, 2, 0), Kind: "bad"},
	}
	// a call to p2 in every tenth of a second from 1.0 s to 3.2 s
	for i := 0; i < 31; i++ {
		ops = append(ops, Ev{Name: "Call", Signer: "c2", Svc: "s1", Provs: []string{"p2"}, Cap: 10, Timeout: 1}, eb(1))
	}
	add("fractions-of-a-unit-and-of-a-second", smallParams(), map[string]int64{"c2": 400}, ops...)

	// a frequency well above the timeout leaves idle blocks between the expiry of a batch and the next one:
	// pause there and start again before the block the next batch is queued for (the cadence goes on), pause
	// there and start after it (the batch is due at the start), for a user's context and a module's
	ops = registry(map[string]int64{"p1": 5, "p2": 3})
	ops = append(ops,
		Ev{Name: "Call", Signer: "c1", Svc: "s1", Provs: both, Cap: 10, Timeout: 2, Rep: true, Freq: 5, Total: 4},                 // 1: batches at 1, 6, 11, 16
		Ev{Name: "Call", Signer: "c1", Svc: "s1", Provs: both, Cap: 10, Timeout: 2, Rep: true, Freq: 5, Total: 4},                 // 2
		Ev{Name: "ModCreate", Signer: "c1", Svc: "s1", Provs: both, Cap: 10, Timeout: 1, Rep: true, Freq: 4, Total: 4, Thr: 1}, // 3: at 1, 5, 9, 13
		eb(1), eb(1), eb(1), // height 4: batch 1 of 1 and 2 expired at 3
		Ev{Name: "Pause", Signer: "c1", ID: 1},
		Ev{Name: "Pause", Signer: "c1", ID: 2},
		Ev{Name: "ModPause", Signer: "c1", ID: 3},
		Ev{Name: "ModStart", Signer: "c1", ID: 3}, // at once: its next batch stays at 5
		eb(1),
		Ev{Name: "Start", Signer: "c1", ID: 1}, // height 5, before 6: the batch queued for 6 is the next one
		eb(1), eb(1), eb(1),
		Ev{Name: "Start", Signer: "c1", ID: 2}, // height 8, after 6: its queue entry was handled while it was paused
		eb(1), eb(1), eb(1), eb(1), eb(1), eb(1), eb(1), eb(1), eb(1), eb(1), eb(1), eb(1),
	)
	add("pause-in-the-idle-gap", smallParams(), map[string]int64{"c1": 400}, ops...)

	// amounts at the top of the SDK's integers, in messages that pass the stateless checks: a deposit of 2^255 - 1
	// added to an existing one, a price of 5 * 10^76 whose minimum deposit is a multiple of it
	ops = registry(map[string]int64{"p1": 5})
	ops = append(ops,
		Ev{Name: "UpdateBinding", Signer: "o1", Svc: "s1", Prov: "p1", Deposit: 1, DShape: "huge"},
		Ev{Name: "UpdateBinding", Signer: "o1", Svc: "s1", Prov: "p1", HasPr: true, PrDenom: "HUGE"},
		Ev{Name: "Bind", Signer: "o1", Svc: "s1", Prov: "p2", Deposit: 40, DShape: "ok", Pr: pr(3), Qos: 1, PrDenom: "HUGE"},
		Ev{Name: "Bind", Signer: "o1", Svc: "s1", Prov: "p2", Deposit: 1, DShape: "huge", Pr: pr(3), Qos: 1},
		Ev{Name: "Disable", Signer: "o1", Svc: "s1", Prov: "p1"},
		Ev{Name: "Enable", Signer: "o1", Svc: "s1", Prov: "p1", Deposit: 1, DShape: "huge"},
		Ev{Name: "Enable", Signer: "o1", Svc: "s1", Prov: "p1"},
		Ev{Name: "Call", Signer: "c1", Svc: "s1", Provs: []string{"p1"}, Cap: 10, Timeout: 2},
		eb(1), eb(1), eb(1),
	)
	add("amounts-at-the-top-of-the-integers", smallParams(), nil, ops...)

	// a popular service: more bindings than a default page of the SDK's pagination holds (100), three owners,
	// a second service whose name extends the first; the listings are observed at 99, 100, 101 and 104 bindings
	ops = []Ev{{Name: "Define", Signer: "o1", Svc: "s"}, {Name: "Define", Signer: "o1", Svc: "s1"}}
	for i := 0; i < 104; i++ {
		owner := "o1" // (one owner of all of them: its fleet is larger than a page as well)
		ops = append(ops, Ev{Name: "Bind", Signer: owner, Svc: "s", Prov: fmt.Sprintf("q%03d", i), Deposit: 10, DShape: "ok", Pr: pr(1), Qos: 1})
		if i == 2 {
			ops = append(ops, Ev{Name: "Bind", Signer: "o1", Svc: "s1", Prov: "q000", Deposit: 10, DShape: "ok", Pr: pr(1), Qos: 1})
		}
		if i == 98 || i == 99 || i == 100 {
			ops = append(ops, Ev{Name: "Obs"})
		}
	}
	// thirty of them serve three calls (a call names ten providers at most), among them the four whose addresses
	// sort last of the 104; then the owner withdraws everything at once
	fleets := [][]string{{"q020", "q025", "q026", "q097"}, {}, {}}
	for i := 0; i < 78; i += 3 {
		k := 0
		for len(fleets[k]) >= 10 {
			k++
		}
		fleets[k] = append(fleets[k], fmt.Sprintf("q%03d", i))
	}
	for _, f := range fleets {
		ops = append(ops, Ev{Name: "Call", Signer: "c1", Svc: "s", Provs: f, Cap: 10, Timeout: 2})
	}
	ops = append(ops, eb(1))
	for c, f := range fleets {
		for i, q := range f {
			ops = append(ops, Ev{Name: "Respond", Signer: q, Rid: rid(int64(c+1), 1, 1, int64(i)), Kind: "valid"})
		}
	}
	ops = append(ops, Ev{Name: "Obs"}, Ev{Name: "Withdraw", Signer: "o1"}, Ev{Name: "Obs"}, eb(1), eb(1))
	add("a-popular-service", smallParams(), map[string]int64{"o1": 2000, "o2": 1000, "c1": 1000}, ops...)

	// a call whose timeout is negative: stateless validation must refuse it (were it accepted, its batch
	// would expire in a block that has ended)
	ops = registry(map[string]int64{"p1": 5, "p2": 3})
	ops = append(ops,
		Ev{Name: "Call", Signer: "c1", Svc: "s1", Provs: both, Cap: 10, Timeout: -3},
		Ev{Name: "Call", Signer: "c1", Svc: "s1", Provs: both, Cap: 10, Timeout: -1, Rep: true, Freq: 2, Total: 2},
		Ev{Name: "Call", Signer: "c1", Svc: "s1", Provs: both, Cap: 10, Timeout: 2},
		eb(1), eb(1), eb(1), eb(1), eb(1),
	)
	add("a-negative-timeout", smallParams(), nil, ops...)

	// a timeout raised to the frequency (accepted) and then above it (refused), with batches still to come:
	// the next batch keeps its place
	ops = registry(map[string]int64{"p1": 5, "p2": 3})
	ops = append(ops,
		Ev{Name: "Call", Signer: "c1", Svc: "s1", Provs: both, Cap: 10, Timeout: 2, Rep: true, Freq: 3, Total: 5},
		eb(1),
		Ev{Name: "UpdateContext", Signer: "c1", ID: 1, Timeout: 3},
		Ev{Name: "UpdateContext", Signer: "c1", ID: 1, Timeout: 4},
		eb(1), eb(1), eb(1), eb(1), eb(1), eb(1), eb(1), eb(1), eb(1),
	)
	add("timeout-raised-to-and-above-the-frequency", smallParams(), map[string]int64{"c1": 200}, ops...)

	return hs
}

// StateStartScenarios: finding D14 - the module answers the state callback "insufficient balances" by
// starting a context again (from inside the new-batch phase of the end blocker)
func StateStartScenarios() []History {
	var hs []History
	add := func(tag string, p *MParams, bal map[string]int64, ops ...Ev) {
		hs = append(hs, History{Reset: baseReset(tag, p, bal), Ops: ops})
	}
	both := []string{"p1", "p2"}
	ops := registry(map[string]int64{"p1": 5, "p2": 3})
	ops = append(ops,
		Ev{Name: "ModCreate", Signer: "c2", Svc: "s1", Provs: both, Cap: 10, Timeout: 2, Rep: true, Freq: 2, Total: 4, Thr: 1,
			RState: "start"},
		eb(1),
		Ev{Name: "Respond", Signer: "p1", Rid: [4]int64{1, 1, 1, 0}, Kind: "valid"},
		Ev{Name: "BankSend", Signer: "c2", To: "o2", Amount: 92},
		eb(1), eb(1), // batch 2 cannot be paid: paused, started again by the module, nothing scheduled
		Ev{Name: "Obs"},
		eb(1), eb(1),
	)
	add("D14-module-restarts-from-the-state-callback", smallParams(), map[string]int64{"c2": 100}, ops...)

	// ... or by starting another of its contexts, which is paused with nothing scheduled: the new entry of the
	// new-batch queue is for the block being processed
	ops = registry(map[string]int64{"p1": 5, "p2": 3})
	ops = append(ops,
		Ev{Name: "ModCreate", Signer: "c2", Svc: "s1", Provs: both, Cap: 10, Timeout: 2, Rep: true, Freq: 2, Total: 4, Thr: 1,
			RState: "start", RTgt: 2},
		Ev{Name: "ModCreate", Signer: "c2", Svc: "s1", Provs: []string{"p2"}, Cap: 10, Timeout: 2, Rep: true, Freq: 2, Total: 4, Thr: 1,
			State: "paused"},
		eb(1),
		Ev{Name: "Respond", Signer: "p1", Rid: [4]int64{1, 1, 1, 0}, Kind: "valid"},
		Ev{Name: "BankSend", Signer: "c2", To: "o2", Amount: 92},
		eb(1), eb(1),
		Ev{Name: "Obs"},
		eb(1), eb(1),
	)
	add("D14-module-starts-a-sibling-from-the-state-callback", smallParams(), map[string]int64{"c2": 100, "c1": 100}, ops...)
	return hs
}
