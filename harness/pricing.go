package main

// An independent reading of the published pricing text (the oracle for C07, C14, C15).
// It does not use the module's ParsePricing / Pricing types.

import (
	"encoding/json"
	"fmt"
	"regexp"
	"strconv"
	"strings"
	"time"
)

type PromoT struct {
	S int64 `json:"s"`
	E int64 `json:"e"`
	D int64 `json:"d"`
	// Raw: the discount as spelled in the published text, when it is not the canonical spelling of D (a spelling
	// the stateless validation must refuse: "005" is 5, not 0.05; D then holds what the text means, over Scale)
	Raw string `json:"-"`
}
type PromoV struct {
	V   int64  `json:"v"`
	D   int64  `json:"d"`
	Raw string `json:"-"`
}

func spell(d int64, raw string) string {
	if raw != "" {
		return raw
	}
	return fmtDiscount(d)
}

// MPricing is the model's pricing record: base price, time promotions, volume promotions
type MPricing struct {
	Price int64    `json:"price"`
	PT    []PromoT `json:"pt"`
	PV    []PromoV `json:"pv"`
}

var rePrice = regexp.MustCompile(`^(\d+)(?:\.(\d+))?([a-z][a-z0-9]{2,7})$`)

// discount "0.25" -> 25 (over Scale); exact only with at most two fractional digits
func parseDiscount(s string) (int64, error) {
	if !strings.HasPrefix(s, "0.") {
		return 0, fmt.Errorf("discount %q", s)
	}
	frac := s[2:]
	if len(frac) == 0 || len(frac) > 2 {
		return 0, fmt.Errorf("discount %q has more digits than the model's scale", s)
	}
	for len(frac) < 2 {
		frac += "0"
	}
	n, err := strconv.ParseInt(frac, 10, 64)
	return n, err
}

func fmtDiscount(d int64) string {
	s := fmt.Sprintf("%02d", d)
	s = strings.TrimRight(s, "0")
	return "0." + s
}

// ParsePricingText returns the pricing record, the denomination and an error
func ParsePricingText(text string) (MPricing, string, error) {
	var raw struct {
		Price string `json:"price"`
		PT    []struct {
			Start    string `json:"start_time"`
			End      string `json:"end_time"`
			Discount string `json:"discount"`
		} `json:"promotions_by_time"`
		PV []struct {
			Volume   int64  `json:"volume"`
			Discount string `json:"discount"`
		} `json:"promotions_by_volume"`
	}
	p := MPricing{PT: []PromoT{}, PV: []PromoV{}}
	if err := json.Unmarshal([]byte(text), &raw); err != nil {
		return p, "", err
	}
	m := rePrice.FindStringSubmatch(raw.Price)
	if m == nil {
		return p, "", fmt.Errorf("price %q", raw.Price)
	}
	n, err := strconv.ParseInt(m[1], 10, 64)
	if err != nil {
		return p, "", err
	}
	p.Price = n // the token has scale 0: the fraction of the minimum unit is dropped
	for _, t := range raw.PT {
		s, err := time.Parse(time.RFC3339, t.Start)
		if err != nil {
			return p, m[3], err
		}
		e, err := time.Parse(time.RFC3339, t.End)
		if err != nil {
			return p, m[3], err
		}
		d, err := parseDiscount(t.Discount)
		if err != nil {
			return p, m[3], err
		}
		p.PT = append(p.PT, PromoT{S: modelTime(s), E: modelTime(e), D: d})
	}
	for _, v := range raw.PV {
		d, err := parseDiscount(v.Discount)
		if err != nil {
			return p, m[3], err
		}
		p.PV = append(p.PV, PromoV{V: v.Volume, D: d})
	}
	return p, m[3], nil
}

// PricingText writes a pricing record as the JSON text a provider publishes
func PricingText(p MPricing, denom string) string {
	var b strings.Builder
	fmt.Fprintf(&b, `{"price":"%d%s"`, p.Price, denom)
	if len(p.PT) > 0 {
		b.WriteString(`,"promotions_by_time":[`)
		for i, t := range p.PT {
			if i > 0 {
				b.WriteString(",")
			}
			fmt.Fprintf(&b, `{"start_time":"%s","end_time":"%s","discount":"%s"}`,
				realTime(t.S).Format(time.RFC3339Nano), realTime(t.E).Format(time.RFC3339Nano), spell(t.D, t.Raw))
		}
		b.WriteString("]")
	}
	if len(p.PV) > 0 {
		b.WriteString(`,"promotions_by_volume":[`)
		for i, v := range p.PV {
			if i > 0 {
				b.WriteString(",")
			}
			fmt.Fprintf(&b, `{"volume":%d,"discount":"%s"}`, v.V, spell(v.D, v.Raw))
		}
		b.WriteString("]")
	}
	b.WriteString("}")
	return b.String()
}
