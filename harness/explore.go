package main

// S4: bounded exhaustive search of the implementation.  Depth-first over the real code with
// CacheContext branching: at every reached implementation state every operation of a finite,
// state-dependent alphabet is applied (accepted ones are followed, rejected ones are logged
// and leave the state unchanged); states are de-duplicated by the digest of the projection.
// The tour is written as one trace: when the search returns to an earlier node, a "restore"
// line carries that node's state again.

import (
	abci "github.com/tendermint/tendermint/abci/types"
	"crypto/sha256"
	"encoding/json"
	"fmt"
)

// Clone branches the chain: the copy works on a nested cache of the parent's context that is
// never written back
func (c *Chain) Clone() *Chain {
	n := *c
	n.Ctx, _ = c.Ctx.CacheContext()
	n.CtxIDs = map[string]int{}
	for k, v := range c.CtxIDs {
		n.CtxIDs[k] = v
	}
	n.CtxBytes = map[int][]byte{}
	for k, v := range c.CtxBytes {
		n.CtxBytes[k] = v
	}
	n.React = map[int]Reaction{}
	for k, v := range c.React {
		n.React[k] = v
	}
	n.ReactCons = map[int]string{}
	for k, v := range c.ReactCons {
		n.ReactCons[k] = v
	}
	n.EndEvents = map[int64][]abci.Event{}
	for k, v := range c.EndEvents {
		n.EndEvents[k] = v
	}
	n.cbs = nil
	n.EvReqs = nil
	return &n
}

// the callbacks registered in NewChain close over the original chain: route them to the branch in use
var activeChain *Chain

type ExploreCfg struct {
	Name     string
	Reset    Ev
	MaxDepth int
	MaxCtx   int
	MaxH     int64
	Alphabet func(st *State, cfg *ExploreCfg) []Ev
}

func stateKey(st *State) string {
	b, _ := json.Marshal(st)
	h := sha256.Sum256(b)
	return string(h[:16])
}

type Explorer struct {
	cfg     *ExploreCfg
	rec     *Recorder
	seen    map[string]int // state key -> smallest depth at which it was expanded
	Edges   int
	States  int
	Rejects int
	maxEd   int
}

// rebuild executes the path from the initial state on a fresh application: nested caches are
// not used for descending (a full store scan through k nested caches costs 4^k)
func (x *Explorer) rebuild(path []Ev) *Chain {
	c := StartHistory(nil, x.cfg.Reset)
	for _, op := range path {
		Step(c, nil, op)
	}
	return c
}

func (x *Explorer) visit(path []Ev, depth int) {
	if depth >= x.cfg.MaxDepth || x.Edges >= x.maxEd {
		return
	}
	c := x.rebuild(path)
	st := c.Project()
	if st.Height > x.cfg.MaxH {
		return
	}
	key := stateKey(st)
	ops := x.cfg.Alphabet(st, x.cfg)
	dirty := true // the last emitted line is not (known to be) this node's state
	for _, op := range ops {
		if x.Edges >= x.maxEd {
			return
		}
		c.normalise(&op)
		if dirty {
			ev := Ev{Name: "restore", OK: true, Path: path}
			c.normalise(&ev)
			x.rec.Emit(ev, nil, st)
			dirty = false
		}
		child := c.Clone()
		before := x.rec.Lines
		if !Step(child, x.rec, op) {
			continue
		}
		x.Edges++
		nst := x.rec.Last // (the step's last line carries the state reached)
		k := stateKey(nst)
		if k == key && x.rec.Lines == before+1 {
			x.Rejects++ // nothing changed (a rejected message): the last line still shows this node's state
			continue
		}
		dirty = true
		if d, ok := x.seen[k]; ok && d <= depth+1 {
			continue
		}
		if _, ok := x.seen[k]; !ok {
			x.States++
		}
		x.seen[k] = depth + 1
		x.visit(append(append([]Ev{}, path...), op), depth+1)
	}
}

func Explore(cfg *ExploreCfg, rec *Recorder, maxEdges int) map[string]interface{} {
	c := StartHistory(rec, cfg.Reset)
	st := c.Project()
	x := &Explorer{cfg: cfg, rec: rec, seen: map[string]int{stateKey(st): 0}, maxEd: maxEdges, States: 1}
	x.visit(nil, 0)
	return map[string]interface{}{"config": cfg.Name, "edges": x.Edges, "states": x.States, "rejected": x.Rejects,
		"complete": x.Edges < maxEdges, "depth": cfg.MaxDepth}
}

// ---- configurations

func lifecycleAlphabet(st *State, cfg *ExploreCfg) []Ev {
	var ops []Ev
	if st.NCtx < cfg.MaxCtx {
		ops = append(ops,
			Ev{Name: "Call", Signer: "c1", Svc: "s1", Provs: []string{"p1", "p2"}, Cap: 10, Timeout: 1, Rep: true, Freq: 2, Total: 2},
			Ev{Name: "Call", Signer: "c1", Svc: "s1", Provs: []string{"p1"}, Cap: 10, Timeout: 2},
			Ev{Name: "Call", Signer: "c2", Svc: "s1", Provs: []string{"p2", "p1"}, Cap: 3, Timeout: 2, Rep: true, Freq: 2, Total: -1},
		)
	}
	for _, a := range st.ActId {
		for _, q := range st.Req {
			if q.Rid == a {
				ops = append(ops, Ev{Name: "Respond", Signer: q.Prov, Rid: a, Kind: "valid"},
					Ev{Name: "Respond", Signer: q.Prov, Rid: a, Kind: "bad"})
			}
		}
	}
	if len(st.ActId) > 0 {
		ops = append(ops, Ev{Name: "Respond", Signer: "o1", Rid: st.ActId[0], Kind: "valid"})
	}
	for _, x := range st.Ctx {
		ops = append(ops, Ev{Name: "Pause", Signer: x.Cons, ID: x.ID}, Ev{Name: "Start", Signer: x.Cons, ID: x.ID},
			Ev{Name: "Kill", Signer: x.Cons, ID: x.ID},
			Ev{Name: "UpdateContext", Signer: x.Cons, ID: x.ID, Timeout: 1},
			Ev{Name: "UpdateContext", Signer: x.Cons, ID: x.ID, Timeout: 2, Freq: 3},
			Ev{Name: "UpdateContext", Signer: x.Cons, ID: x.ID, Total: 1})
	}
	if len(st.Ctx) > 0 {
		ops = append(ops, Ev{Name: "Pause", Signer: "o1", ID: st.Ctx[0].ID})
		if st.Ctx[0].Module != "" {
			x := st.Ctx[0]
			ops = append(ops, Ev{Name: "ModPause", Signer: x.Cons, ID: x.ID}, Ev{Name: "ModStart", Signer: x.Cons, ID: x.ID},
				Ev{Name: "ModKill", Signer: x.Cons, ID: x.ID}, Ev{Name: "ModUpdate", Signer: x.Cons, ID: x.ID, Thr: 1})
		}
	}
	ops = append(ops, Ev{Name: "Disable", Signer: "o1", Svc: "s1", Prov: "p2"},
		Ev{Name: "BankSend", Signer: "c1", To: "o2", Amount: 90})
	if len(st.Earned) > 0 {
		ops = append(ops, Ev{Name: "Withdraw", Signer: "o1", Prov: "p1"}, Ev{Name: "Withdraw", Signer: "o1"})
	}
	ops = append(ops, Ev{Name: "EndBlock", Dt: 1})
	return ops
}

func bindingAlphabet(st *State, cfg *ExploreCfg) []Ev {
	var ops []Ev
	for _, o := range []string{"o1", "o2"} {
		for _, p := range []string{"p1", "p2"} {
			ops = append(ops,
				Ev{Name: "Bind", Signer: o, Svc: "s1", Prov: p, Deposit: 10, DShape: "ok", Pr: pr(3), Qos: 1},
				Ev{Name: "Bind", Signer: o, Svc: "s", Prov: p, Deposit: 12, DShape: "ok", Pr: pr(6), Qos: 1},
				Ev{Name: "Disable", Signer: o, Svc: "s1", Prov: p},
				Ev{Name: "Enable", Signer: o, Svc: "s1", Prov: p},
				Ev{Name: "Enable", Signer: o, Svc: "s1", Prov: p, Deposit: 4, DShape: "ok"},
				Ev{Name: "RefundDeposit", Signer: o, Svc: "s1", Prov: p},
				Ev{Name: "UpdateBinding", Signer: o, Svc: "s1", Prov: p, HasPr: true, Pr: pr(7)},
				Ev{Name: "UpdateBinding", Signer: o, Svc: "s1", Prov: p, HasPr: true, Pr: pr(1)},
				Ev{Name: "UpdateBinding", Signer: o, Svc: "s1", Prov: p, Deposit: 4, DShape: "ok"},
				Ev{Name: "UpdateBinding", Signer: o, Svc: "s1", Prov: p, HasPr: true, Pr: pr(7), Deposit: 2, DShape: "ok"},
			)
		}
	}
	ops = append(ops, Ev{Name: "Define", Signer: "o2", Svc: "s"}, Ev{Name: "EndBlock", Dt: 3}, Ev{Name: "Obs"})
	return ops
}

// governance moves among the lifecycle's: the parameters change under a batch in flight
func paramsAlphabet(st *State, cfg *ExploreCfg) []Ev {
	var ops []Ev
	alt := func(f func(p *MParams)) {
		p := *smallParams()
		f(&p)
		q := st.Params
		q.Lax, p.Lax = false, false
		if p != q {
			ops = append(ops, Ev{Name: "SetParams", RParams: &p})
		}
	}
	alt(func(p *MParams) {})
	alt(func(p *MParams) { p.MaxTimeout = 1 })
	alt(func(p *MParams) { p.Slash = 1000; p.Tax = 0 })
	alt(func(p *MParams) { p.Slash = 0; p.MinDeposit = 50; p.RefundDelay = 2 })
	for _, a := range st.ActId {
		for _, q := range st.Req {
			if q.Rid == a {
				ops = append(ops, Ev{Name: "Respond", Signer: q.Prov, Rid: a, Kind: "valid"},
					Ev{Name: "Respond", Signer: q.Prov, Rid: a, Kind: "bad"})
			}
		}
	}
	for _, x := range st.Ctx {
		ops = append(ops, Ev{Name: "Pause", Signer: x.Cons, ID: x.ID}, Ev{Name: "Start", Signer: x.Cons, ID: x.ID},
			Ev{Name: "UpdateContext", Signer: x.Cons, ID: x.ID, Timeout: 1},
			Ev{Name: "UpdateContext", Signer: x.Cons, ID: x.ID, Timeout: 2, Freq: 3})
	}
	if st.NCtx < cfg.MaxCtx {
		ops = append(ops, Ev{Name: "Call", Signer: "c2", Svc: "s1", Provs: []string{"p2"}, Cap: 10, Timeout: 2})
	}
	ops = append(ops,
		Ev{Name: "Disable", Signer: "o1", Svc: "s1", Prov: "p2"},
		Ev{Name: "Enable", Signer: "o1", Svc: "s1", Prov: "p2"},
		Ev{Name: "RefundDeposit", Signer: "o1", Svc: "s1", Prov: "p2"},
		Ev{Name: "UpdateBinding", Signer: "o1", Svc: "s1", Prov: "p1", Qos: 2},
		Ev{Name: "EndBlock", Dt: 2})
	return ops
}

// Exhaustive search to a small depth around prepared states: the prefix is executed (unlogged)
// before the search starts, so that the interesting interleavings (responses, pause / start /
// kill / update, disable, withdrawals, block ends around a batch in flight, a batch answered
// early, a context between two batches, a module context) are within reach of a small depth.
func ExploreConfigs() map[string]*ExploreCfg {
	p := smallParams()
	reg := registry(map[string]int64{"p1": 5, "p2": 3})
	bal := map[string]int64{"o1": 0, "o2": 0, "c1": 100, "c2": 4}
	repCall := Ev{Name: "Call", Signer: "c1", Svc: "s1", Provs: []string{"p1", "p2"}, Cap: 10, Timeout: 2, Rep: true, Freq: 3, Total: 2}
	rid := func(id, batch, h, idx int64) [4]int64 { return [4]int64{id, batch, h, idx} }
	lc := func(name string, depth int, prefix ...Ev) *ExploreCfg {
		return &ExploreCfg{Name: name, MaxDepth: depth, MaxCtx: 1, MaxH: 9, Alphabet: lifecycleAlphabet,
			Reset: Ev{Name: "reset", RParams: p, Tag: "explore-" + name, RBal: bal, RInit: append(append([]Ev{}, reg...), prefix...)}}
	}
	return map[string]*ExploreCfg{
		"fresh":     lc("fresh", 4),
		"inflight":  lc("inflight", 4, repCall, eb(1)),
		"answered":  lc("answered", 4, repCall, eb(1), Ev{Name: "Respond", Signer: "p1", Rid: rid(1, 1, 1, 0), Kind: "valid"}, Ev{Name: "Respond", Signer: "p2", Rid: rid(1, 1, 1, 1), Kind: "valid"}),
		"paused":    lc("paused", 4, repCall, eb(1), Ev{Name: "Pause", Signer: "c1", ID: 1}),
		"between":   lc("between", 4, repCall, eb(1), eb(1), eb(1)),
		"lastbatch": lc("lastbatch", 4, repCall, eb(1), eb(1), eb(1), eb(1)),
		"oneshot":   lc("oneshot", 4, Ev{Name: "Call", Signer: "c1", Svc: "s1", Provs: []string{"p1", "p2"}, Cap: 10, Timeout: 2}, eb(1)),
		"module": lc("module", 4, Ev{Name: "ModCreate", Signer: "c1", Svc: "s1", Provs: []string{"p1", "p2"}, Cap: 10, Timeout: 2, Rep: true, Freq: 2, Total: 3, Thr: 2}, eb(1),
			Ev{Name: "Respond", Signer: "p1", Rid: rid(1, 1, 1, 0), Kind: "valid"}),
		"reactive": lc("reactive", 4, Ev{Name: "ModCreate", Signer: "c1", Svc: "s1", Provs: []string{"p1", "p2"}, Cap: 10, Timeout: 2, Rep: true, Freq: 2, Total: 3, Thr: 1,
			RResp: "kill", RState: "kill"},
			Ev{Name: "ModCreate", Signer: "c2", Svc: "s1", Provs: []string{"p2"}, Cap: 10, Timeout: 1, Rep: true, Freq: 2, Total: -1, Thr: 1,
				RResp: "pause", RState: "kill"}, eb(1)),
		"shared": lc("shared", 4, repCall,
			Ev{Name: "Call", Signer: "c2", Svc: "s1", Provs: []string{"p2"}, Cap: 10, Timeout: 2, Rep: true, Freq: 3, Total: 2}, eb(1),
			Ev{Name: "Respond", Signer: "p2", Rid: rid(2, 1, 1, 0), Kind: "valid"}),
		"siblings": lc("siblings", 4, Ev{Name: "ModCreate", Signer: "c1", Svc: "s1", Provs: []string{"p1", "p2"}, Cap: 10, Timeout: 2, Rep: true, Freq: 2, Total: 3, Thr: 1,
			RResp: "start", RState: "pause", RTgt: 2},
			Ev{Name: "ModCreate", Signer: "c1", Svc: "s1", Provs: []string{"p2"}, Cap: 10, Timeout: 1, Rep: true, Freq: 2, Total: -1, Thr: 1,
				RResp: "kill", RState: "cap1", RTgt: 1}, eb(1)),
		"params": {Name: "params", MaxDepth: 4, MaxCtx: 2, MaxH: 9, Alphabet: paramsAlphabet,
			Reset: Ev{Name: "reset", RParams: p, Tag: "explore-params", RBal: bal, RInit: append(append([]Ev{}, reg...), repCall, eb(1))}},
		"binding": {Name: "binding", MaxDepth: 5, MaxCtx: 0, MaxH: 3, Alphabet: bindingAlphabet,
			Reset: Ev{Name: "reset", RParams: p, Tag: "explore-binding", RBal: map[string]int64{"o1": 30, "o2": 16},
				RInit: []Ev{{Name: "Define", Signer: "o1", Svc: "s1"}}}},
	}
}

func init() { _ = fmt.Sprint }
