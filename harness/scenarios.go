package main

// S1: scripted scenarios — the happy path, one script per finding and per boundary named
// in a property's quantifier.

func pr(price int64) MPricing { return MPricing{Price: price, PT: []PromoT{}, PV: []PromoV{}} }

func eb(dt int64) Ev { return Ev{Name: "EndBlock", Dt: dt} }

func smallParams() *MParams {
	return &MParams{MaxTimeout: 6, Multiple: 2, MinDeposit: 10, Tax: 100, Slash: 100, RefundDelay: 6}
}

func baseReset(tag string, p *MParams, bal map[string]int64) Ev {
	b := map[string]int64{"o1": 500, "o2": 500, "c1": 100, "c2": 100}
	for k, v := range bal {
		b[k] = v
	}
	return Ev{Name: "reset", RParams: p, RBal: b, Tag: tag}
}

func registry(prices map[string]int64) []Ev {
	ops := []Ev{{Name: "Define", Signer: "o1", Svc: "s1"}}
	for _, p := range []string{"p1", "p2", "p3"} {
		if price, ok := prices[p]; ok {
			owner := "o1"
			if p == "p3" {
				owner = "o2"
			}
			ops = append(ops, Ev{Name: "Bind", Signer: owner, Svc: "s1", Prov: p, Deposit: 40, DShape: "ok", Pr: pr(price), Qos: 1})
		}
	}
	return ops
}

func Scenarios() []History {
	var hs []History
	add := func(tag string, p *MParams, bal map[string]int64, ops ...Ev) {
		hs = append(hs, History{Reset: baseReset(tag, p, bal), Ops: ops})
	}
	rid := func(id, batch, h, idx int64) [4]int64 { return [4]int64{id, batch, h, idx} }

	// happy path: define, bind, call, respond, withdraw
	ops := registry(map[string]int64{"p1": 5, "p2": 3})
	ops = append(ops,
		Ev{Name: "Call", Signer: "c1", Svc: "s1", Provs: []string{"p1", "p2"}, Cap: 10, Timeout: 2},
		eb(1),
		Ev{Name: "Respond", Signer: "p1", Rid: rid(1, 1, 1, 0), Kind: "valid"},
		Ev{Name: "Respond", Signer: "p2", Rid: rid(1, 1, 1, 1), Kind: "none"},
		eb(1), eb(1), eb(1),
		Ev{Name: "SetWithdrawAddr", Signer: "o1", Addr: "w1"},
		Ev{Name: "Withdraw", Signer: "o1", Prov: "p1"},
		Ev{Name: "Withdraw", Signer: "o1"},
		Ev{Name: "Withdraw", Signer: "o2"},
	)
	add("happy", smallParams(), nil, ops...)

	// responses at every offset relative to the expiry block, by provider and stranger, twice
	ops = registry(map[string]int64{"p1": 5, "p2": 3, "p3": 4})
	ops = append(ops,
		Ev{Name: "Call", Signer: "c1", Svc: "s1", Provs: []string{"p1", "p2", "p3"}, Cap: 10, Timeout: 2},
		eb(1), // issued at height 1, expires at the end of height 3
		Ev{Name: "Respond", Signer: "p2", Rid: rid(1, 1, 1, 0), Kind: "valid"}, // wrong provider
		Ev{Name: "Respond", Signer: "p1", Rid: rid(1, 1, 1, 0), Kind: "valid"},
		Ev{Name: "Respond", Signer: "p1", Rid: rid(1, 1, 1, 0), Kind: "valid"}, // twice
		eb(1),
		eb(1),
		Ev{Name: "Respond", Signer: "p2", Rid: rid(1, 1, 1, 1), Kind: "bad"}, // in the expiry block
		eb(1),
		Ev{Name: "Respond", Signer: "p3", Rid: rid(1, 1, 1, 2), Kind: "valid"}, // one block late
		Ev{Name: "Respond", Signer: "p3", Rid: rid(9, 1, 1, 2), Kind: "valid"}, // unknown
	)
	add("offsets", smallParams(), nil, ops...)

	// D1: the consumer cannot pay the batch
	ops = registry(map[string]int64{"p1": 5})
	ops = append(ops,
		Ev{Name: "Call", Signer: "c1", Svc: "s1", Provs: []string{"p1"}, Cap: 10, Timeout: 2, Rep: true, Freq: 2, Total: 3},
		eb(1), eb(1), eb(1),
		Ev{Name: "BankSend", Signer: "o1", To: "c1", Amount: 20},
		Ev{Name: "Start", Signer: "c1", ID: 1},
		eb(1),
		Ev{Name: "Respond", Signer: "p1", Rid: rid(1, 1, 4, 0), Kind: "valid"},
		eb(1), eb(1), eb(1), eb(1), eb(1), eb(1), eb(1),
	)
	add("D1-unpayable", smallParams(), map[string]int64{"c1": 3}, ops...)

	// D2: price 0 and a price pushed below one unit by a discount
	ops = []Ev{
		{Name: "Define", Signer: "o1", Svc: "s1"},
		{Name: "Bind", Signer: "o1", Svc: "s1", Prov: "p1", Deposit: 40, DShape: "ok", Pr: pr(0), Qos: 1},
		{Name: "Bind", Signer: "o1", Svc: "s1", Prov: "p2", Deposit: 40, DShape: "ok",
			Pr: MPricing{Price: 3, PT: []PromoT{}, PV: []PromoV{{V: 1, D: 10}}}, Qos: 1},
		{Name: "Call", Signer: "c1", Svc: "s1", Provs: []string{"p1", "p2"}, Cap: 10, Timeout: 1, Rep: true, Freq: 1, Total: 3},
		eb(1),
		{Name: "Respond", Signer: "p1", Rid: rid(1, 1, 1, 0), Kind: "valid"},
		{Name: "Respond", Signer: "p2", Rid: rid(1, 1, 1, 1), Kind: "valid"},
		eb(1), eb(1),
		{Name: "Respond", Signer: "p2", Rid: rid(1, 2, 2, 1), Kind: "valid"},
		eb(1), eb(1),
		{Name: "Withdraw", Signer: "o1"},
	}
	add("D2-price-floor", smallParams(), nil, ops...)

	// D3: a price increase without the collateral it requires
	ops = []Ev{
		{Name: "Define", Signer: "o1", Svc: "s1"},
		{Name: "Bind", Signer: "o1", Svc: "s1", Prov: "p1", Deposit: 12, DShape: "ok", Pr: pr(5), Qos: 1},
		{Name: "UpdateBinding", Signer: "o1", Svc: "s1", Prov: "p1", HasPr: true, Pr: pr(100)},
		{Name: "UpdateBinding", Signer: "o1", Svc: "s1", Prov: "p1", HasPr: true, Pr: pr(100), Deposit: 188, DShape: "ok"},
		{Name: "UpdateBinding", Signer: "o1", Svc: "s1", Prov: "p1", HasPr: true, Pr: pr(1)},
		{Name: "UpdateBinding", Signer: "o1", Svc: "s1", Prov: "p1", Qos: 3},
	}
	add("D3-price-increase", smallParams(), nil, ops...)

	// D4: paused during the final batch, started after it expired
	ops = registry(map[string]int64{"p1": 5})
	ops = append(ops,
		Ev{Name: "Call", Signer: "c1", Svc: "s1", Provs: []string{"p1"}, Cap: 10, Timeout: 1, Rep: true, Freq: 2, Total: 1},
		eb(1),
		Ev{Name: "Pause", Signer: "c1", ID: 1},
		eb(1),
		Ev{Name: "Start", Signer: "c1", ID: 1},
		eb(1), eb(1), eb(1),
	)
	add("D4-pause-final-batch", smallParams(), nil, ops...)

	// D5: empty deposit
	ops = []Ev{
		{Name: "Define", Signer: "o1", Svc: "s1"},
		{Name: "Bind", Signer: "o1", Svc: "s1", Prov: "p1", DShape: "empty", Pr: pr(5), Qos: 1},
		{Name: "Bind", Signer: "o1", Svc: "s1", Prov: "p1", Deposit: 40, DShape: "other", Pr: pr(5), Qos: 1},
		{Name: "Bind", Signer: "o1", Svc: "s1", Prov: "p1", Deposit: 40, DShape: "two", Pr: pr(5), Qos: 1},
	}
	add("D5-empty-deposit", smallParams(), nil, ops...)

	// refund one second before / exactly at / after the refundable instant; slash to auto-disable
	ops = registry(map[string]int64{"p1": 5})
	ops = append(ops,
		Ev{Name: "Disable", Signer: "o1", Svc: "s1", Prov: "p1"},
		eb(5),
		Ev{Name: "RefundDeposit", Signer: "o1", Svc: "s1", Prov: "p1"}, // one second early
		Ev{Name: "RefundDeposit", Signer: "o2", Svc: "s1", Prov: "p1"},
		eb(1),
		Ev{Name: "RefundDeposit", Signer: "o1", Svc: "s1", Prov: "p1"}, // exactly at
		Ev{Name: "RefundDeposit", Signer: "o1", Svc: "s1", Prov: "p1"}, // already refunded
		Ev{Name: "Enable", Signer: "o1", Svc: "s1", Prov: "p1", Deposit: 9, DShape: "ok"},
		Ev{Name: "Enable", Signer: "o1", Svc: "s1", Prov: "p1", Deposit: 10, DShape: "ok"},
		Ev{Name: "Call", Signer: "c1", Svc: "s1", Provs: []string{"p1"}, Cap: 10, Timeout: 1},
		eb(1), eb(1), // times out: slashed below the minimum, disabled
		eb(7),
		Ev{Name: "RefundDeposit", Signer: "o1", Svc: "s1", Prov: "p1"},
	)
	add("refund-boundaries", smallParams(), nil, ops...)

	// module-owned context: callbacks, thresholds, skipped batch, pause for funds
	ops = registry(map[string]int64{"p1": 5, "p2": 3})
	ops = append(ops,
		Ev{Name: "ModCreate", Signer: "c1", Svc: "s1", Provs: []string{"p1", "p2"}, Cap: 10, Timeout: 2, Rep: true, Freq: 2, Total: 4, Thr: 2, State: "paused"},
		Ev{Name: "Start", Signer: "c1", ID: 1},
		Ev{Name: "ModStart", Signer: "c2", ID: 1},
		Ev{Name: "ModStart", Signer: "c1", ID: 1},
		eb(1),
		Ev{Name: "Respond", Signer: "p1", Rid: rid(1, 1, 1, 0), Kind: "valid"},
		Ev{Name: "Respond", Signer: "p2", Rid: rid(1, 1, 1, 1), Kind: "bad"},
		eb(1), eb(1),
		Ev{Name: "Respond", Signer: "p1", Rid: rid(1, 2, 3, 0), Kind: "none"},
		Ev{Name: "Disable", Signer: "o1", Svc: "s1", Prov: "p2"},
		eb(1), eb(1), // batch 2 expires with one response, batch 3 is skipped (threshold 2, one eligible)
		Ev{Name: "ModUpdate", Signer: "c1", ID: 1, Thr: 1},
		Ev{Name: "BankSend", Signer: "c1", To: "o1", Amount: 80},
		eb(1), eb(1), eb(1), eb(1),
		Ev{Name: "ModKill", Signer: "c1", ID: 1},
		eb(1), eb(1),
	)
	add("module-context", smallParams(), nil, ops...)

	// frequency = timeout, total reached, kill in flight, update between batches
	ops = registry(map[string]int64{"p1": 2})
	ops = append(ops,
		Ev{Name: "Call", Signer: "c1", Svc: "s1", Provs: []string{"p1"}, Cap: 10, Timeout: 1, Rep: true, Freq: 1, Total: 2},
		Ev{Name: "Call", Signer: "c2", Svc: "s1", Provs: []string{"p1"}, Cap: 10, Timeout: 2, Rep: true, Freq: 3, Total: -1},
		eb(1), eb(1), eb(1),
		Ev{Name: "UpdateContext", Signer: "c2", ID: 2, Total: 2},
		Ev{Name: "UpdateContext", Signer: "c2", ID: 2, Timeout: 1, Freq: 1},
		eb(1), eb(1),
		Ev{Name: "Kill", Signer: "c2", ID: 2},
		Ev{Name: "Kill", Signer: "c2", ID: 2},
		Ev{Name: "Start", Signer: "c2", ID: 2},
		eb(1), eb(1), eb(1),
	)
	add("cadence", smallParams(), nil, ops...)

	// zero-height export with pending requests, earnings, a withdrawal address, a killed and a paused context
	ops = registry(map[string]int64{"p1": 5, "p2": 3, "p3": 4})
	ops = append(ops,
		Ev{Name: "SetWithdrawAddr", Signer: "o1", Addr: "w1"},
		Ev{Name: "Call", Signer: "c1", Svc: "s1", Provs: []string{"p1", "p2", "p3"}, Cap: 10, Timeout: 3, Rep: true, Freq: 4, Total: 5},
		Ev{Name: "Call", Signer: "c2", Svc: "s1", Provs: []string{"p3"}, Cap: 10, Timeout: 2, Rep: true, Freq: 2, Total: -1},
		Ev{Name: "ModCreate", Signer: "c2", Svc: "s1", Provs: []string{"p1", "p2"}, Cap: 10, Timeout: 2, Thr: 1},
		eb(1),
		Ev{Name: "Respond", Signer: "p1", Rid: rid(1, 1, 1, 0), Kind: "valid"},
		Ev{Name: "Respond", Signer: "p3", Rid: rid(2, 1, 1, 0), Kind: "valid"},
		Ev{Name: "Kill", Signer: "c2", ID: 2},
		eb(1),
		Ev{Name: "Obs"},
		Ev{Name: "PrepZeroHeight"},
		Ev{Name: "Genesis"},
	)
	add("genesis-busy", smallParams(), nil, ops...)

	// zero-height export of an empty module and of a registry without contexts
	add("genesis-empty", smallParams(), nil, Ev{Name: "PrepZeroHeight"}, Ev{Name: "Genesis"})
	ops = registry(map[string]int64{"p1": 5})
	ops = append(ops, Ev{Name: "Disable", Signer: "o1", Svc: "s1", Prov: "p1"}, eb(3), Ev{Name: "PrepZeroHeight"}, Ev{Name: "Genesis"})
	add("genesis-registry", smallParams(), nil, ops...)

	return hs
}
