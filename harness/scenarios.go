package main

// S1: scripted scenarios — the happy path, one script per finding and per boundary named
// in a property's quantifier.

func pr(price int64) MPricing { return MPricing{Price: price, PT: []PromoT{}, PV: []PromoV{}} }

func eb(dt int64) Ev { return Ev{Name: "EndBlock", Dt: dt} }

func smallParams() *MParams {
	return &MParams{MaxTimeout: 6, Multiple: 2, MinDeposit: 10, Tax: 100, Slash: 100, RefundDelay: 6}
}

func baseReset(tag string, p *MParams, bal map[string]int64) Ev {
	b := map[string]int64{"o1": 500, "o2": 500, "c1": 100, "c2": 100}
	for k, v := range bal {
		b[k] = v
	}
	return Ev{Name: "reset", RParams: p, RBal: b, Tag: tag}
}

func registry(prices map[string]int64) []Ev {
	ops := []Ev{{Name: "Define", Signer: "o1", Svc: "s1"}}
	for _, p := range []string{"p1", "p2", "p3"} {
		if price, ok := prices[p]; ok {
			owner := "o1"
			if p == "p3" {
				owner = "o2"
			}
			ops = append(ops, Ev{Name: "Bind", Signer: owner, Svc: "s1", Prov: p, Deposit: 40, DShape: "ok", Pr: pr(price), Qos: 1})
		}
	}
	return ops
}

func Scenarios() []History {
	var hs []History
	add := func(tag string, p *MParams, bal map[string]int64, ops ...Ev) {
		hs = append(hs, History{Reset: baseReset(tag, p, bal), Ops: ops})
	}
	rid := func(id, batch, h, idx int64) [4]int64 { return [4]int64{id, batch, h, idx} }

	// happy path: define, bind, call, respond, withdraw
	ops := registry(map[string]int64{"p1": 5, "p2": 3})
	ops = append(ops,
		Ev{Name: "Call", Signer: "c1", Svc: "s1", Provs: []string{"p1", "p2"}, Cap: 10, Timeout: 2},
		eb(1),
		Ev{Name: "Respond", Signer: "p1", Rid: rid(1, 1, 1, 0), Kind: "valid"},
		Ev{Name: "Respond", Signer: "p2", Rid: rid(1, 1, 1, 1), Kind: "none"},
		eb(1), eb(1), eb(1),
		Ev{Name: "SetWithdrawAddr", Signer: "o1", Addr: "w1"},
		Ev{Name: "Withdraw", Signer: "o1", Prov: "p1"},
		Ev{Name: "Withdraw", Signer: "o1"},
		Ev{Name: "Withdraw", Signer: "o2"},
	)
	add("happy", smallParams(), nil, ops...)

	// responses at every offset relative to the expiry block, by provider and stranger, twice
	ops = registry(map[string]int64{"p1": 5, "p2": 3, "p3": 4})
	ops = append(ops,
		Ev{Name: "Call", Signer: "c1", Svc: "s1", Provs: []string{"p1", "p2", "p3"}, Cap: 10, Timeout: 2},
		eb(1), // issued at height 1, expires at the end of height 3
		Ev{Name: "Respond", Signer: "p2", Rid: rid(1, 1, 1, 0), Kind: "valid"}, // wrong provider
		Ev{Name: "Respond", Signer: "p1", Rid: rid(1, 1, 1, 0), Kind: "valid"},
		Ev{Name: "Respond", Signer: "p1", Rid: rid(1, 1, 1, 0), Kind: "valid"}, // twice
		eb(1),
		eb(1),
		Ev{Name: "Respond", Signer: "p2", Rid: rid(1, 1, 1, 1), Kind: "bad"}, // in the expiry block
		eb(1),
		Ev{Name: "Respond", Signer: "p3", Rid: rid(1, 1, 1, 2), Kind: "valid"}, // one block late
		Ev{Name: "Respond", Signer: "p3", Rid: rid(9, 1, 1, 2), Kind: "valid"}, // unknown
	)
	add("offsets", smallParams(), nil, ops...)

	// D1: the consumer cannot pay the batch
	ops = registry(map[string]int64{"p1": 5})
	ops = append(ops,
		Ev{Name: "Call", Signer: "c1", Svc: "s1", Provs: []string{"p1"}, Cap: 10, Timeout: 2, Rep: true, Freq: 2, Total: 3},
		eb(1), eb(1), eb(1),
		Ev{Name: "BankSend", Signer: "o1", To: "c1", Amount: 20},
		Ev{Name: "Start", Signer: "c1", ID: 1},
		eb(1),
		Ev{Name: "Respond", Signer: "p1", Rid: rid(1, 1, 4, 0), Kind: "valid"},
		eb(1), eb(1), eb(1), eb(1), eb(1), eb(1), eb(1),
	)
	add("D1-unpayable", smallParams(), map[string]int64{"c1": 3}, ops...)

	// D2: price 0 and a price pushed below one unit by a discount
	ops = []Ev{
		{Name: "Define", Signer: "o1", Svc: "s1"},
		{Name: "Bind", Signer: "o1", Svc: "s1", Prov: "p1", Deposit: 40, DShape: "ok", Pr: pr(0), Qos: 1},
		{Name: "Bind", Signer: "o1", Svc: "s1", Prov: "p2", Deposit: 40, DShape: "ok",
			Pr: MPricing{Price: 3, PT: []PromoT{}, PV: []PromoV{{V: 1, D: 10}}}, Qos: 1},
		{Name: "Call", Signer: "c1", Svc: "s1", Provs: []string{"p1", "p2"}, Cap: 10, Timeout: 1, Rep: true, Freq: 1, Total: 3},
		eb(1),
		{Name: "Respond", Signer: "p1", Rid: rid(1, 1, 1, 0), Kind: "valid"},
		{Name: "Respond", Signer: "p2", Rid: rid(1, 1, 1, 1), Kind: "valid"},
		eb(1), eb(1),
		{Name: "Respond", Signer: "p2", Rid: rid(1, 2, 2, 1), Kind: "valid"},
		eb(1), eb(1),
		{Name: "Withdraw", Signer: "o1"},
	}
	add("D2-price-floor", smallParams(), nil, ops...)

	// D3: a price increase without the collateral it requires
	ops = []Ev{
		{Name: "Define", Signer: "o1", Svc: "s1"},
		{Name: "Bind", Signer: "o1", Svc: "s1", Prov: "p1", Deposit: 12, DShape: "ok", Pr: pr(5), Qos: 1},
		{Name: "UpdateBinding", Signer: "o1", Svc: "s1", Prov: "p1", HasPr: true, Pr: pr(100)},
		{Name: "UpdateBinding", Signer: "o1", Svc: "s1", Prov: "p1", HasPr: true, Pr: pr(100), Deposit: 100, DShape: "ok"}, // still 88 short
		{Name: "UpdateBinding", Signer: "o1", Svc: "s1", Prov: "p1", HasPr: true, Pr: pr(100), Deposit: 188, DShape: "ok"},
		{Name: "UpdateBinding", Signer: "o1", Svc: "s1", Prov: "p1", HasPr: true, Pr: pr(1)},
		{Name: "UpdateBinding", Signer: "o1", Svc: "s1", Prov: "p1", Qos: 3},
		{Name: "Bind", Signer: "o1", Svc: "s1", Prov: "p2", Deposit: 12, DShape: "ok", Pr: pr(0), Qos: 1},
		{Name: "UpdateBinding", Signer: "o1", Svc: "s1", Prov: "p2", HasPr: true, Pr: pr(100)},               // a raise from a price of 0
		{Name: "Bind", Signer: "o1", Svc: "s1", Prov: "p3", Deposit: 150, DShape: "ok", Pr: pr(100), Qos: 1}, // above the global minimum only
	}
	add("D3-price-increase", smallParams(), nil, ops...)

	// D4: paused during the final batch, started after it expired
	ops = registry(map[string]int64{"p1": 5})
	ops = append(ops,
		Ev{Name: "Call", Signer: "c1", Svc: "s1", Provs: []string{"p1"}, Cap: 10, Timeout: 1, Rep: true, Freq: 2, Total: 1},
		eb(1),
		Ev{Name: "Pause", Signer: "c1", ID: 1},
		eb(1),
		Ev{Name: "Start", Signer: "c1", ID: 1},
		eb(1), eb(1), eb(1),
	)
	add("D4-pause-final-batch", smallParams(), nil, ops...)

	// D5: empty deposit
	ops = []Ev{
		{Name: "Define", Signer: "o1", Svc: "s1"},
		{Name: "Bind", Signer: "o1", Svc: "s1", Prov: "p1", DShape: "empty", Pr: pr(5), Qos: 1},
		{Name: "Bind", Signer: "o1", Svc: "s1", Prov: "p1", Deposit: 40, DShape: "other", Pr: pr(5), Qos: 1},
		{Name: "Bind", Signer: "o1", Svc: "s1", Prov: "p1", Deposit: 40, DShape: "two", Pr: pr(5), Qos: 1},
	}
	add("D5-empty-deposit", smallParams(), nil, ops...)

	// refund one second before / exactly at / after the refundable instant; slash to auto-disable
	ops = registry(map[string]int64{"p1": 5})
	ops = append(ops,
		Ev{Name: "Disable", Signer: "o1", Svc: "s1", Prov: "p1"},
		eb(5),
		Ev{Name: "RefundDeposit", Signer: "o1", Svc: "s1", Prov: "p1"}, // one second early
		Ev{Name: "RefundDeposit", Signer: "o2", Svc: "s1", Prov: "p1"},
		eb(1),
		Ev{Name: "RefundDeposit", Signer: "o1", Svc: "s1", Prov: "p1"}, // exactly at
		Ev{Name: "RefundDeposit", Signer: "o1", Svc: "s1", Prov: "p1"}, // already refunded
		Ev{Name: "Enable", Signer: "o1", Svc: "s1", Prov: "p1", Deposit: 9, DShape: "ok"},
		Ev{Name: "Enable", Signer: "o1", Svc: "s1", Prov: "p1", Deposit: 10, DShape: "ok"},
		Ev{Name: "Call", Signer: "c1", Svc: "s1", Provs: []string{"p1"}, Cap: 10, Timeout: 1},
		eb(1), eb(1), // times out: slashed below the minimum, disabled
		eb(7),
		Ev{Name: "RefundDeposit", Signer: "o1", Svc: "s1", Prov: "p1"},
	)
	add("refund-boundaries", smallParams(), nil, ops...)

	// module-owned context: callbacks, thresholds, skipped batch, pause for funds
	ops = registry(map[string]int64{"p1": 5, "p2": 3})
	ops = append(ops,
		Ev{Name: "ModCreate", Signer: "c1", Svc: "s1", Provs: []string{"p1", "p2"}, Cap: 10, Timeout: 2, Rep: true, Freq: 2, Total: 4, Thr: 2, State: "paused"},
		Ev{Name: "Start", Signer: "c1", ID: 1},
		Ev{Name: "ModStart", Signer: "c2", ID: 1},
		Ev{Name: "ModStart", Signer: "c1", ID: 1},
		eb(1),
		Ev{Name: "Respond", Signer: "p1", Rid: rid(1, 1, 1, 0), Kind: "valid"},
		Ev{Name: "Respond", Signer: "p2", Rid: rid(1, 1, 1, 1), Kind: "bad"},
		eb(1), eb(1),
		Ev{Name: "Respond", Signer: "p1", Rid: rid(1, 2, 3, 0), Kind: "none"},
		Ev{Name: "Disable", Signer: "o1", Svc: "s1", Prov: "p2"},
		eb(1), eb(1), // batch 2 expires with one response, batch 3 is skipped (threshold 2, one eligible)
		Ev{Name: "ModUpdate", Signer: "c1", ID: 1, Thr: 1},
		Ev{Name: "BankSend", Signer: "c1", To: "o1", Amount: 80},
		eb(1), eb(1), eb(1), eb(1),
		Ev{Name: "ModKill", Signer: "c1", ID: 1},
		eb(1), eb(1),
	)
	add("module-context", smallParams(), nil, ops...)

	// frequency = timeout, total reached, kill in flight, update between batches
	ops = registry(map[string]int64{"p1": 2})
	ops = append(ops,
		Ev{Name: "Call", Signer: "c1", Svc: "s1", Provs: []string{"p1"}, Cap: 10, Timeout: 1, Rep: true, Freq: 1, Total: 2},
		Ev{Name: "Call", Signer: "c2", Svc: "s1", Provs: []string{"p1"}, Cap: 10, Timeout: 2, Rep: true, Freq: 3, Total: -1},
		eb(1), eb(1), eb(1),
		Ev{Name: "UpdateContext", Signer: "c2", ID: 2, Total: 2},
		Ev{Name: "UpdateContext", Signer: "c2", ID: 2, Timeout: 1, Freq: 1},
		eb(1), eb(1),
		Ev{Name: "Kill", Signer: "c2", ID: 2},
		Ev{Name: "Kill", Signer: "c2", ID: 2},
		Ev{Name: "Start", Signer: "c2", ID: 2},
		eb(1), eb(1), eb(1),
	)
	add("cadence", smallParams(), nil, ops...)

	// ---- boundary scenarios named by the properties' quantifiers

	// fractional discounted prices (x.5 and x.75), both promotion kinds, several windows: block times
	// before, at the start of, inside, at the end of, between and after the windows
	ops = []Ev{
		{Name: "Define", Signer: "o1", Svc: "s1"},
		{Name: "Bind", Signer: "o1", Svc: "s1", Prov: "p1", Deposit: 60, DShape: "ok", Qos: 1,
			Pr: MPricing{Price: 3, PT: []PromoT{}, PV: []PromoV{{V: 1, D: 50}, {V: 3, D: 90}}}},
		{Name: "Bind", Signer: "o1", Svc: "s1", Prov: "p2", Deposit: 60, DShape: "ok", Qos: 1,
			Pr: MPricing{Price: 5, PT: []PromoT{{S: 1002, E: 1004, D: 75}, {S: 1006, E: 1009, D: 50}}, PV: []PromoV{}}},
		{Name: "Bind", Signer: "o2", Svc: "s1", Prov: "p3", Deposit: 60, DShape: "ok", Qos: 1,
			Pr: MPricing{Price: 7, PT: []PromoT{{S: 1000, E: 1020, D: 50}}, PV: []PromoV{{V: 2, D: 50}}}},
		{Name: "Call", Signer: "c1", Svc: "s1", Provs: []string{"p1", "p2", "p3"}, Cap: 10, Timeout: 1, Rep: true, Freq: 1, Total: 12},
	}
	for h := int64(1); h <= 12; h++ {
		ops = append(ops, eb(1),
			Ev{Name: "Respond", Signer: "p1", Rid: rid(1, h, h, 0), Kind: "valid"},
			Ev{Name: "Respond", Signer: "p3", Rid: rid(1, h, h, 2), Kind: "valid"})
		if h%3 == 0 {
			ops = append(ops, Ev{Name: "Respond", Signer: "p2", Rid: rid(1, h, h, 1), Kind: "none"})
		}
	}
	ops = append(ops, Ev{Name: "Withdraw", Signer: "o1", Prov: "p1"}, Ev{Name: "Withdraw", Signer: "o1"}, Ev{Name: "Withdraw", Signer: "o2", Prov: "p3"}, Ev{Name: "Withdraw", Signer: "o2"})
	add("pricing-fractions", smallParams(), map[string]int64{"c1": 400}, ops...)

	// fee cap equal to the truncated price; tax that truncates to a non-zero amount; withdrawals in every order
	ops = []Ev{
		{Name: "Define", Signer: "o1", Svc: "s1"},
		{Name: "Bind", Signer: "o1", Svc: "s1", Prov: "p1", Deposit: 100, DShape: "ok", Qos: 1,
			Pr: MPricing{Price: 5, PT: []PromoT{{S: 1000, E: 1100, D: 75}}, PV: []PromoV{}}},
		{Name: "Bind", Signer: "o1", Svc: "s1", Prov: "p2", Deposit: 100, DShape: "ok", Qos: 1, Pr: pr(25)},
		{Name: "Bind", Signer: "o2", Svc: "s1", Prov: "p3", Deposit: 100, DShape: "ok", Qos: 1, Pr: pr(12)},
		{Name: "Call", Signer: "c1", Svc: "s1", Provs: []string{"p1"}, Cap: 3, Timeout: 2},
		{Name: "Call", Signer: "c2", Svc: "s1", Provs: []string{"p2", "p3"}, Cap: 30, Timeout: 2},
		eb(1),
		{Name: "Respond", Signer: "p1", Rid: rid(1, 1, 1, 0), Kind: "valid"},
		{Name: "Respond", Signer: "p2", Rid: rid(2, 1, 1, 0), Kind: "valid"},
		{Name: "Respond", Signer: "p3", Rid: rid(2, 1, 1, 1), Kind: "valid"},
		{Name: "Withdraw", Signer: "o1", Prov: "p2"},
		{Name: "Withdraw", Signer: "o1", Prov: "p1"},
		{Name: "Withdraw", Signer: "o1"},
		{Name: "Withdraw", Signer: "o2", Prov: "p1"},
		{Name: "Call", Signer: "c1", Svc: "s1", Provs: []string{"p2"}, Cap: 30, Timeout: 2},
		eb(1),
		{Name: "Respond", Signer: "p2", Rid: rid(3, 1, 2, 0), Kind: "valid"},
		{Name: "Withdraw", Signer: "o1", Prov: "p2"},
		{Name: "Withdraw", Signer: "o1"},
		{Name: "Withdraw", Signer: "o2"},
		eb(1), eb(1),
	}
	add("cap-tax-withdraw", smallParams(), nil, ops...)

	// a batch answered in full before its expiry: pause / start / update in that window, and after it
	ops = registry(map[string]int64{"p1": 5, "p2": 3})
	ops = append(ops,
		Ev{Name: "Call", Signer: "c1", Svc: "s1", Provs: []string{"p1", "p2"}, Cap: 10, Timeout: 4, Rep: true, Freq: 6, Total: -1},
		eb(1),
		Ev{Name: "Respond", Signer: "p1", Rid: rid(1, 1, 1, 0), Kind: "valid"},
		Ev{Name: "Respond", Signer: "p2", Rid: rid(1, 1, 1, 1), Kind: "valid"},
		Ev{Name: "Pause", Signer: "c1", ID: 1},
		eb(1),
		Ev{Name: "Start", Signer: "c1", ID: 1},
		eb(1), eb(1), eb(1), eb(1), eb(1),
		// batch 2 unanswered: pause and start while it is pending
		Ev{Name: "Pause", Signer: "c1", ID: 1},
		Ev{Name: "Start", Signer: "c1", ID: 1},
		eb(1), eb(1), eb(1), eb(1),
		Ev{Name: "Respond", Signer: "p1", Rid: rid(1, 2, 7, 0), Kind: "valid"},
		eb(1), eb(1), eb(1),
	)
	add("pause-start-windows", smallParams(), nil, ops...)

	// timeout changed while a batch is in flight: answers, expiry, the next batch; timeout above frequency
	ops = registry(map[string]int64{"p1": 5, "p2": 3})
	ops = append(ops,
		Ev{Name: "Call", Signer: "c1", Svc: "s1", Provs: []string{"p1", "p2"}, Cap: 10, Timeout: 5, Rep: true, Freq: 5, Total: 6},
		eb(1),
		Ev{Name: "UpdateContext", Signer: "c1", ID: 1, Timeout: 2},
		Ev{Name: "Obs"},
		Ev{Name: "Respond", Signer: "p1", Rid: rid(1, 1, 1, 0), Kind: "valid"},
		eb(1), eb(1), eb(1), eb(1), eb(1),
		Ev{Name: "UpdateContext", Signer: "c1", ID: 1, Timeout: 4}, // above the frequency (kept): rejected
		eb(1), eb(1), eb(1), eb(1), eb(1), eb(1),
		Ev{Name: "UpdateContext", Signer: "c1", ID: 1, Timeout: 6},          // rejected
		Ev{Name: "UpdateContext", Signer: "c1", ID: 1, Timeout: 6, Freq: 6}, // together: accepted
		Ev{Name: "Respond", Signer: "p2", Rid: rid(1, 2, 6, 1), Kind: "bad"},
		eb(1), eb(1), eb(1), eb(1), eb(1), eb(1), eb(1), eb(1),
	)
	// ... and once more without the repair: a timeout above the frequency is refused, the cadence goes on as it was
	ops = append(ops,
		Ev{Name: "UpdateContext", Signer: "c1", ID: 1, Timeout: 8},
		eb(1), eb(1), eb(1), eb(1), eb(1), eb(1), eb(1), eb(1), eb(1),
	)
	add("timeout-update-in-flight", smallParams(), nil, ops...)

	// bindings that change while requests are pending: disabled by the owner, re-priced while disabled, topped up
	ops = registry(map[string]int64{"p1": 5, "p2": 3})
	ops = append(ops,
		Ev{Name: "Call", Signer: "c1", Svc: "s1", Provs: []string{"p1", "p2"}, Cap: 10, Timeout: 2},
		eb(1),
		Ev{Name: "Disable", Signer: "o1", Svc: "s1", Prov: "p1"},
		Ev{Name: "UpdateBinding", Signer: "o1", Svc: "s1", Prov: "p1", HasPr: true, Pr: pr(2)},
		Ev{Name: "UpdateBinding", Signer: "o1", Svc: "s1", Prov: "p1", Deposit: 7, DShape: "ok"},
		Ev{Name: "Respond", Signer: "p2", Rid: rid(1, 1, 1, 1), Kind: "bad"},
		eb(1), eb(1), // p1's request times out while its binding is disabled
		Ev{Name: "Enable", Signer: "o1", Svc: "s1", Prov: "p1", Deposit: 3, DShape: "ok"},
		Ev{Name: "Call", Signer: "c1", Svc: "s1", Provs: []string{"p1"}, Cap: 10, Timeout: 1},
		eb(1),
		Ev{Name: "Respond", Signer: "p1", Rid: rid(2, 1, 4, 0), Kind: "valid"},
		eb(1), eb(7),
		Ev{Name: "Disable", Signer: "o1", Svc: "s1", Prov: "p2"},
		eb(6),
		Ev{Name: "RefundDeposit", Signer: "o1", Svc: "s1", Prov: "p2"},
	)
	add("binding-changes-in-flight", smallParams(), map[string]int64{"p1": 9}, ops...)

	// super mode: timeout without slash, malformed answer with slash; one-shot context updated with repeat terms
	ops = registry(map[string]int64{"p1": 5, "p2": 3})
	ops = append(ops,
		Ev{Name: "Call", Signer: "c1", Svc: "s1", Provs: []string{"p1", "p2"}, Cap: 10, Timeout: 2, Super: true},
		Ev{Name: "Call", Signer: "c2", Svc: "s1", Provs: []string{"p1"}, Cap: 10, Timeout: 3},
		eb(1),
		Ev{Name: "Respond", Signer: "p2", Rid: rid(1, 1, 1, 1), Kind: "bad"},
		Ev{Name: "UpdateContext", Signer: "c2", ID: 2, Freq: 4, Total: 3},
		Ev{Name: "UpdateContext", Signer: "c2", ID: 2, Total: -1},
		eb(1), eb(1),
		Ev{Name: "Obs"},
		eb(1), eb(1), eb(1), eb(1), eb(1), eb(1),
	)
	add("super-and-oneshot", smallParams(), nil, ops...)

	// two services whose names are prefixes of one another; a provider claimed by a second owner;
	// withdrawal address set before a further bind
	ops = []Ev{
		{Name: "Define", Signer: "o1", Svc: "s"},
		{Name: "Define", Signer: "o1", Svc: "s1"},
		{Name: "Define", Signer: "o2", Svc: "s-1"},
		{Name: "Define", Signer: "o2", Svc: "s"},
		{Name: "Bind", Signer: "o1", Svc: "s1", Prov: "p1", Deposit: 40, DShape: "ok", Pr: pr(5), Qos: 1},
		{Name: "SetWithdrawAddr", Signer: "o1", Addr: "w1"},
		{Name: "Bind", Signer: "o2", Svc: "s", Prov: "p1", Deposit: 40, DShape: "ok", Pr: pr(5), Qos: 1}, // p1 belongs to o1
		{Name: "Bind", Signer: "o1", Svc: "s", Prov: "p2", Deposit: 40, DShape: "ok", Pr: pr(4), Qos: 1},
		{Name: "Bind", Signer: "o2", Svc: "s-1", Prov: "p3", Deposit: 40, DShape: "ok", Pr: pr(3), Qos: 1},
		{Name: "Bind", Signer: "o1", Svc: "s-1", Prov: "p1", Deposit: 40, DShape: "ok", Pr: pr(2), Qos: 1},
		{Name: "Obs"},
		{Name: "Call", Signer: "c1", Svc: "s", Provs: []string{"p2", "p1"}, Cap: 10, Timeout: 2},
		{Name: "Call", Signer: "c1", Svc: "s-1", Provs: []string{"p1", "p3"}, Cap: 10, Timeout: 2},
		eb(1),
		{Name: "Obs"},
		{Name: "Respond", Signer: "p2", Rid: rid(1, 1, 1, 0), Kind: "valid"},
		{Name: "Respond", Signer: "p1", Rid: rid(2, 1, 1, 0), Kind: "valid"},
		{Name: "Withdraw", Signer: "o2", Prov: "p1"},
		{Name: "Withdraw", Signer: "o1"},
		eb(1), eb(1),
	}
	add("prefix-names-owners", smallParams(), nil, ops...)

	// module context: threshold changed while a batch is in flight; a skipped batch expires
	ops = registry(map[string]int64{"p1": 5, "p2": 3})
	ops = append(ops,
		Ev{Name: "ModCreate", Signer: "c1", Svc: "s1", Provs: []string{"p1", "p2"}, Cap: 10, Timeout: 2, Rep: true, Freq: 3, Total: 5, Thr: 1},
		eb(1),
		Ev{Name: "ModUpdate", Signer: "c1", ID: 1, Thr: 2},
		Ev{Name: "Respond", Signer: "p1", Rid: rid(1, 1, 1, 0), Kind: "valid"},
		eb(1), eb(1), // expires with one output: no error (the batch was issued under threshold 1)
		Ev{Name: "ModUpdate", Signer: "c1", ID: 1, Cap: 1, CapShape: "ok"},
		eb(1), eb(1), eb(1), // batch 2 skipped (cap below every price), expires: callback with an error
		Ev{Name: "ModUpdate", Signer: "c1", ID: 1, Cap: 10, CapShape: "ok", Thr: 1},
		eb(1),
		Ev{Name: "Respond", Signer: "p1", Rid: rid(1, 3, 7, 0), Kind: "valid"},
		Ev{Name: "Respond", Signer: "p2", Rid: rid(1, 3, 7, 1), Kind: "valid"},
		eb(1), eb(1), eb(1),
	)
	add("module-threshold", smallParams(), nil, ops...)

	// two contexts of one consumer due in the same block, funds for one of them only
	ops = registry(map[string]int64{"p1": 5})
	ops = append(ops,
		Ev{Name: "Call", Signer: "c1", Svc: "s1", Provs: []string{"p1"}, Cap: 10, Timeout: 2},
		Ev{Name: "Call", Signer: "c1", Svc: "s1", Provs: []string{"p1"}, Cap: 10, Timeout: 2},
		Ev{Name: "Call", Signer: "c1", Svc: "s1", Provs: []string{"p1"}, Cap: 10, Timeout: 2},
		eb(1), eb(1), eb(1), eb(1),
	)
	add("same-block-one-budget", smallParams(), map[string]int64{"c1": 7}, ops...)

	// several contexts of one consumer due in one block, the first one unaffordable, a later one affordable
	ops = registry(map[string]int64{"p1": 9, "p2": 2})
	ops = append(ops,
		Ev{Name: "Call", Signer: "c1", Svc: "s1", Provs: []string{"p1"}, Cap: 10, Timeout: 2},
		Ev{Name: "Call", Signer: "c1", Svc: "s1", Provs: []string{"p2"}, Cap: 10, Timeout: 2},
		Ev{Name: "Call", Signer: "c1", Svc: "s1", Provs: []string{"p1", "p2"}, Cap: 10, Timeout: 2},
		Ev{Name: "Call", Signer: "c1", Svc: "s1", Provs: []string{"p2"}, Cap: 10, Timeout: 2},
		eb(1), eb(1), eb(1), eb(1),
	)
	add("same-block-mixed-prices", smallParams(), map[string]int64{"c1": 5}, ops...)

	// a module context with a single provider; a provider whose address contains a zero byte; the
	// middle one of three providers not eligible; role aliasing (an owner's account is another owner's provider)
	ops = []Ev{
		{Name: "Define", Signer: "o1", Svc: "s1"},
		{Name: "Bind", Signer: "o1", Svc: "s1", Prov: "p1", Deposit: 40, DShape: "ok", Pr: pr(5), Qos: 1},
		{Name: "Bind", Signer: "o1", Svc: "s1", Prov: "pz", Deposit: 40, DShape: "ok", Pr: pr(3), Qos: 1},
		{Name: "Bind", Signer: "o1", Svc: "s1", Prov: "p3", Deposit: 40, DShape: "ok", Pr: pr(4), Qos: 1},
		{Name: "Bind", Signer: "o2", Svc: "s1", Prov: "o1", Deposit: 40, DShape: "ok", Pr: pr(2), Qos: 1}, // o1's account, owned by o2
		{Name: "SetWithdrawAddr", Signer: "o1", Addr: "w1"},
		{Name: "SetWithdrawAddr", Signer: "o2", Addr: "c2"},
		{Name: "Obs"},
		{Name: "ModCreate", Signer: "c1", Svc: "s1", Provs: []string{"p1"}, Cap: 10, Timeout: 2, Rep: true, Freq: 2, Total: 2, Thr: 1},
		{Name: "Disable", Signer: "o1", Svc: "s1", Prov: "pz"},
		{Name: "Call", Signer: "c2", Svc: "s1", Provs: []string{"p1", "pz", "p3"}, Cap: 10, Timeout: 2},
		{Name: "Call", Signer: "c2", Svc: "s1", Provs: []string{"o1", "p3"}, Cap: 10, Timeout: 2},
		eb(1),
		{Name: "Respond", Signer: "p1", Rid: rid(1, 1, 1, 0), Kind: "valid"},
		{Name: "Respond", Signer: "p1", Rid: rid(2, 1, 1, 0), Kind: "valid"},
		{Name: "Respond", Signer: "p3", Rid: rid(2, 1, 1, 1), Kind: "valid"},
		{Name: "Respond", Signer: "o1", Rid: rid(3, 1, 1, 0), Kind: "valid"},
		{Name: "Enable", Signer: "o1", Svc: "s1", Prov: "pz"},
		{Name: "Obs"},
		{Name: "Withdraw", Signer: "o1", Prov: "pz"}, // a provider without earnings
		{Name: "Withdraw", Signer: "o1", Prov: "p1"},
		{Name: "Withdraw", Signer: "o1"},
		{Name: "Withdraw", Signer: "o2"},
		eb(1), eb(1), eb(1),
	}
	add("odd-shapes", smallParams(), map[string]int64{"c1": 100, "c2": 100}, ops...)

	// zero-height export with pending requests, earnings, a withdrawal address, a killed and a paused context
	ops = registry(map[string]int64{"p1": 5, "p2": 3})
	ops = append(ops,
		// p3 is its own owner and pays its earnings out to another account
		Ev{Name: "Bind", Signer: "p3", Svc: "s1", Prov: "p3", Deposit: 40, DShape: "ok", Pr: pr(4), Qos: 1},
		Ev{Name: "SetWithdrawAddr", Signer: "p3", Addr: "w1"},
		Ev{Name: "SetWithdrawAddr", Signer: "o1", Addr: "w1"},
		Ev{Name: "Call", Signer: "c1", Svc: "s1", Provs: []string{"p1", "p2", "p3"}, Cap: 10, Timeout: 3, Rep: true, Freq: 4, Total: 5},
		Ev{Name: "Call", Signer: "c2", Svc: "s1", Provs: []string{"p3"}, Cap: 10, Timeout: 2, Rep: true, Freq: 2, Total: -1},
		Ev{Name: "ModCreate", Signer: "c2", Svc: "s1", Provs: []string{"p1", "p2"}, Cap: 10, Timeout: 2, Thr: 1},
		eb(1),
		Ev{Name: "Respond", Signer: "p1", Rid: rid(1, 1, 1, 0), Kind: "valid"},
		Ev{Name: "Respond", Signer: "p3", Rid: rid(2, 1, 1, 0), Kind: "valid"},
		Ev{Name: "Kill", Signer: "c2", ID: 2},
		eb(1),
		Ev{Name: "Obs"},
		Ev{Name: "PrepZeroHeight"},
		Ev{Name: "Genesis"},
	)
	add("genesis-busy", smallParams(), map[string]int64{"p3": 50}, ops...)

	// zero-height export of an empty module and of a registry without contexts
	add("genesis-empty", smallParams(), nil, Ev{Name: "PrepZeroHeight"}, Ev{Name: "Genesis"})
	ops = registry(map[string]int64{"p1": 5})
	ops = append(ops, Ev{Name: "Disable", Signer: "o1", Svc: "s1", Prov: "p1"}, eb(3), Ev{Name: "PrepZeroHeight"}, Ev{Name: "Genesis"})
	add("genesis-registry", smallParams(), nil, ops...)

	// zero-height export with a refunded binding (empty deposit) and a provider that serves two services and has earnings
	ops = []Ev{
		{Name: "Define", Signer: "o1", Svc: "s1"},
		{Name: "Define", Signer: "o1", Svc: "s2"},
		{Name: "Bind", Signer: "o1", Svc: "s1", Prov: "p1", Deposit: 40, DShape: "ok", Pr: pr(5), Qos: 1},
		{Name: "Bind", Signer: "o1", Svc: "s2", Prov: "p1", Deposit: 40, DShape: "ok", Pr: pr(4), Qos: 1},
		{Name: "Bind", Signer: "o2", Svc: "s1", Prov: "p2", Deposit: 40, DShape: "ok", Pr: pr(3), Qos: 1},
		{Name: "Bind", Signer: "o2", Svc: "s2", Prov: "p3", Deposit: 40, DShape: "ok", Pr: pr(3), Qos: 1},
		{Name: "Disable", Signer: "o2", Svc: "s2", Prov: "p3"},
		{Name: "Call", Signer: "c1", Svc: "s1", Provs: []string{"p1", "p2"}, Cap: 10, Timeout: 9},
		{Name: "Call", Signer: "c1", Svc: "s2", Provs: []string{"p1"}, Cap: 10, Timeout: 9},
		eb(3),
		{Name: "Respond", Signer: "p1", Rid: rid(1, 1, 1, 0), Kind: "valid"},
		{Name: "Respond", Signer: "p1", Rid: rid(2, 1, 1, 0), Kind: "valid"},
		eb(3),
		{Name: "RefundDeposit", Signer: "o2", Svc: "s2", Prov: "p3"},
		{Name: "PrepZeroHeight"},
		{Name: "Genesis"},
	}
	add("genesis-refunded-and-shared-provider", &MParams{MaxTimeout: 10, Multiple: 2, MinDeposit: 10, Tax: 100, Slash: 100, RefundDelay: 6}, nil, ops...)

	// ---- known findings (recorded, not repaired): see known_findings.json

	// D8: a provider address that is not 20 bytes long.  o2 binds "p1+" (p1's address extended by one
	// byte): the earned-fee records of p1 and p1+ share a prefix, the scans by provider mix them
	ops = []Ev{
		{Name: "Define", Signer: "o1", Svc: "s1"},
		{Name: "Bind", Signer: "o1", Svc: "s1", Prov: "p1", Deposit: 40, DShape: "ok", Pr: pr(5), Qos: 1},
		{Name: "Bind", Signer: "o2", Svc: "s1", Prov: "p1+", Deposit: 40, DShape: "ok", Pr: pr(3), Qos: 1},
		{Name: "Call", Signer: "c1", Svc: "s1", Provs: []string{"p1", "p1+"}, Cap: 10, Timeout: 2},
		eb(1),
		{Name: "Respond", Signer: "p1", Rid: rid(1, 1, 1, 0), Kind: "valid"},
		{Name: "Respond", Signer: "p1+", Rid: rid(1, 1, 1, 1), Kind: "valid"},
		{Name: "Obs"},
		{Name: "Withdraw", Signer: "c1", Prov: "p1-"}, // a stranger names an address nobody registered (a byte-prefix of p1)
		{Name: "Withdraw", Signer: "o1", Prov: "p1"},
		{Name: "Withdraw", Signer: "o2"}, // owner-wide, the owner's only provider has a 21-byte address
		{Name: "Withdraw", Signer: "o2", Prov: "p1+"},
		eb(1), eb(1),
	}
	hs = append(hs, History{Reset: Ev{Name: "reset", RParams: smallParams(), Tag: "D8-provider-address-not-20-bytes",
		RBal: map[string]int64{"o1": 500, "o2": 500, "c1": 100, "p1+": 0}}, Ops: ops})

	// D11: a repeated frequency of 2^64-1 wraps the height of the next batch
	ops = registry(map[string]int64{"p1": 5})
	ops = append(ops,
		Ev{Name: "Call", Signer: "c1", Svc: "s1", Provs: []string{"p1"}, Cap: 10, Timeout: 2, Rep: true, FreqHuge: true, Total: -1},
		eb(1), eb(1), eb(1), eb(1), eb(1),
	)
	add("D11-frequency-wraps", smallParams(), nil, ops...)

	// D9: a call of a registered module service (the synchronous call path)
	ops = []Ev{
		{Name: "Define", Signer: "o1", Svc: "msvc"},
		{Name: "Define", Signer: "o1", Svc: "vsvcmod"},
		// a service reserved by a module cannot be bound by a user (the module's own name is free)
		{Name: "Bind", Signer: "o1", Svc: "msvc", Prov: "p1", Deposit: 40, DShape: "ok", Pr: pr(5), Qos: 1},
		{Name: "Bind", Signer: "o1", Svc: "msvc", Prov: "p3", Deposit: 40, DShape: "ok", Pr: pr(5), Qos: 1}, // (the module's own provider, by a stranger)
		{Name: "Bind", Signer: "p3", Svc: "msvc", Prov: "p3", Deposit: 40, DShape: "ok", Pr: pr(5), Qos: 1}, // (and by that account itself)
		{Name: "Bind", Signer: "o1", Svc: "vsvcmod", Prov: "p1", Deposit: 40, DShape: "ok", Pr: pr(5), Qos: 1},
		{Name: "Call", Signer: "c1", Svc: "msvc", Provs: []string{"p1"}, Cap: 10, Timeout: 2},
		eb(1), eb(1), eb(1),
	}
	hs = append(hs, History{Reset: Ev{Name: "reset", RParams: smallParams(), Tag: "D9-module-service-call", RModSvc: true,
		RBal: map[string]int64{"o1": 500, "c1": 100}}, Ops: ops})

	hs = append(hs, Scenarios2()...)
	hs = append(hs, ParamScenarios()...)
	hs = append(hs, ReactScenarios()...)
	hs = append(hs, StateStartScenarios()...)
	return hs
}
