package main

// S1, continued: shapes that need particular module parameters or two records interacting.

func Scenarios2() []History {
	var hs []History
	add := func(tag string, p *MParams, bal map[string]int64, ops ...Ev) {
		hs = append(hs, History{Reset: baseReset(tag, p, bal), Ops: ops})
	}
	rid := func(id, batch, h, idx int64) [4]int64 { return [4]int64{id, batch, h, idx} }

	// slash fraction 1: the first timeout takes the whole deposit, further requests of the same provider
	// expire (and one is answered badly) while its deposit is zero - in the same block and in later ones
	full := &MParams{MaxTimeout: 6, Multiple: 2, MinDeposit: 10, Tax: 100, Slash: 1000, RefundDelay: 6}
	ops := registry(map[string]int64{"p1": 5, "p2": 3})
	ops = append(ops,
		Ev{Name: "Call", Signer: "c1", Svc: "s1", Provs: []string{"p1"}, Cap: 10, Timeout: 2},
		Ev{Name: "Call", Signer: "c2", Svc: "s1", Provs: []string{"p1", "p2"}, Cap: 10, Timeout: 2},
		Ev{Name: "Call", Signer: "c2", Svc: "s1", Provs: []string{"p1"}, Cap: 10, Timeout: 3},
		Ev{Name: "Call", Signer: "c1", Svc: "s1", Provs: []string{"p1", "p2"}, Cap: 10, Timeout: 4, Super: true},
		Ev{Name: "Call", Signer: "c1", Svc: "s1", Provs: []string{"p1"}, Cap: 10, Timeout: 5},
		eb(1), eb(1),
		Ev{Name: "Obs"},
		eb(1), // contexts 1 and 2 expire: p1 loses everything at the first, has nothing left at the second
		Ev{Name: "Respond", Signer: "p1", Rid: rid(4, 1, 1, 0), Kind: "bad"}, // slashed with nothing left
		eb(1), // context 3 expires
		Ev{Name: "Respond", Signer: "p1", Rid: rid(5, 1, 1, 0), Kind: "valid"},
		eb(1), eb(1), eb(1),
		Ev{Name: "Enable", Signer: "o1", Svc: "s1", Prov: "p1", Deposit: 9, DShape: "ok"},
		Ev{Name: "Enable", Signer: "o1", Svc: "s1", Prov: "p1", Deposit: 10, DShape: "ok"},
		Ev{Name: "Withdraw", Signer: "o1"},
	)
	add("full-slash-then-more-expiries", full, nil, ops...)

	// the deposit is refunded while requests of the binding are still pending; they then time out, are
	// answered badly, and are answered well, against a deposit of zero
	long := &MParams{MaxTimeout: 12, Multiple: 2, MinDeposit: 10, Tax: 100, Slash: 100, RefundDelay: 3}
	ops = registry(map[string]int64{"p1": 5, "p2": 3})
	ops = append(ops,
		Ev{Name: "Call", Signer: "c1", Svc: "s1", Provs: []string{"p1", "p2"}, Cap: 10, Timeout: 8},
		Ev{Name: "Call", Signer: "c2", Svc: "s1", Provs: []string{"p1"}, Cap: 10, Timeout: 9},
		Ev{Name: "Call", Signer: "c2", Svc: "s1", Provs: []string{"p1"}, Cap: 10, Timeout: 10},
		eb(1),
		Ev{Name: "Disable", Signer: "o1", Svc: "s1", Prov: "p1"},
		eb(2),
		Ev{Name: "RefundDeposit", Signer: "o1", Svc: "s1", Prov: "p1"}, // one unit early
		eb(1),
		Ev{Name: "RefundDeposit", Signer: "o1", Svc: "s1", Prov: "p1"},
		Ev{Name: "Respond", Signer: "p1", Rid: rid(2, 1, 1, 0), Kind: "bad"},
		Ev{Name: "Respond", Signer: "p1", Rid: rid(3, 1, 1, 0), Kind: "valid"},
		eb(1), eb(1), eb(1), eb(1), eb(1), eb(1), eb(1), // context 1 expires with p1 unanswered and empty
		Ev{Name: "Withdraw", Signer: "o1"},
	)
	add("refund-while-requests-pending", long, nil, ops...)

	return hs
}
