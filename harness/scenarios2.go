package main

// S1, continued: shapes that need particular module parameters or two records interacting.

func Scenarios2() []History {
	var hs []History
	add := func(tag string, p *MParams, bal map[string]int64, ops ...Ev) {
		hs = append(hs, History{Reset: baseReset(tag, p, bal), Ops: ops})
	}
	rid := func(id, batch, h, idx int64) [4]int64 { return [4]int64{id, batch, h, idx} }

	// slash fraction 1: the first timeout takes the whole deposit, further requests of the same provider
	// expire (and one is answered badly) while its deposit is zero - in the same block and in later ones
	full := &MParams{MaxTimeout: 6, Multiple: 2, MinDeposit: 10, Tax: 100, Slash: 1000, RefundDelay: 6}
	ops := registry(map[string]int64{"p1": 5, "p2": 3})
	ops = append(ops,
		Ev{Name: "Call", Signer: "c1", Svc: "s1", Provs: []string{"p1"}, Cap: 10, Timeout: 2},
		Ev{Name: "Call", Signer: "c2", Svc: "s1", Provs: []string{"p1", "p2"}, Cap: 10, Timeout: 2},
		Ev{Name: "Call", Signer: "c2", Svc: "s1", Provs: []string{"p1"}, Cap: 10, Timeout: 3},
		Ev{Name: "Call", Signer: "c1", Svc: "s1", Provs: []string{"p1", "p2"}, Cap: 10, Timeout: 4, Super: true},
		Ev{Name: "Call", Signer: "c1", Svc: "s1", Provs: []string{"p1"}, Cap: 10, Timeout: 5},
		eb(1), eb(1),
		Ev{Name: "Obs"},
		eb(1), // contexts 1 and 2 expire: p1 loses everything at the first, has nothing left at the second
		Ev{Name: "Respond", Signer: "p1", Rid: rid(4, 1, 1, 0), Kind: "bad"}, // slashed with nothing left
		eb(1), // context 3 expires
		Ev{Name: "Respond", Signer: "p1", Rid: rid(5, 1, 1, 0), Kind: "valid"},
		eb(1), eb(1), eb(1),
		Ev{Name: "Enable", Signer: "o1", Svc: "s1", Prov: "p1", Deposit: 9, DShape: "ok"},
		Ev{Name: "Enable", Signer: "o1", Svc: "s1", Prov: "p1", Deposit: 10, DShape: "ok"},
		Ev{Name: "Withdraw", Signer: "o1"},
	)
	add("full-slash-then-more-expiries", full, nil, ops...)

	// the deposit is refunded while requests of the binding are still pending; they then time out, are
	// answered badly, and are answered well, against a deposit of zero
	long := &MParams{MaxTimeout: 12, Multiple: 2, MinDeposit: 10, Tax: 100, Slash: 100, RefundDelay: 3}
	ops = registry(map[string]int64{"p1": 5, "p2": 3})
	ops = append(ops,
		Ev{Name: "Call", Signer: "c1", Svc: "s1", Provs: []string{"p1", "p2"}, Cap: 10, Timeout: 8},
		Ev{Name: "Call", Signer: "c2", Svc: "s1", Provs: []string{"p1"}, Cap: 10, Timeout: 9},
		Ev{Name: "Call", Signer: "c2", Svc: "s1", Provs: []string{"p1"}, Cap: 10, Timeout: 10},
		eb(1),
		Ev{Name: "Disable", Signer: "o1", Svc: "s1", Prov: "p1"},
		eb(2),
		Ev{Name: "RefundDeposit", Signer: "o1", Svc: "s1", Prov: "p1"}, // one unit early
		eb(1),
		Ev{Name: "RefundDeposit", Signer: "o1", Svc: "s1", Prov: "p1"},
		Ev{Name: "Respond", Signer: "p1", Rid: rid(2, 1, 1, 0), Kind: "bad"},
		Ev{Name: "Respond", Signer: "p1", Rid: rid(3, 1, 1, 0), Kind: "valid"},
		eb(1), eb(1), eb(1), eb(1), eb(1), eb(1), eb(1), // context 1 expires with p1 unanswered and empty
		Ev{Name: "Withdraw", Signer: "o1"},
	)
	add("refund-while-requests-pending", long, nil, ops...)

	// the minimum a slashed binding is measured against is the one of its current price: not of the fee the
	// failed request was charged (discounted, re-priced since, or none in super mode)
	ops = []Ev{
		{Name: "Define", Signer: "o1", Svc: "s1"},
		{Name: "Bind", Signer: "o1", Svc: "s1", Prov: "p1", Deposit: 21, DShape: "ok", Qos: 1,
			Pr: MPricing{Price: 10, PT: []PromoT{}, PV: []PromoV{{V: 1, D: 50}}}},
		{Name: "Bind", Signer: "o1", Svc: "s1", Prov: "p2", Deposit: 12, DShape: "ok", Qos: 1, Pr: pr(6)},
		{Name: "Bind", Signer: "o2", Svc: "s1", Prov: "p3", Deposit: 21, DShape: "ok", Qos: 1, Pr: pr(10)},
		{Name: "Call", Signer: "c1", Svc: "s1", Provs: []string{"p1"}, Cap: 10, Timeout: 1},
		eb(1),
		{Name: "Respond", Signer: "p1", Rid: rid(1, 1, 1, 0), Kind: "valid"},
		{Name: "Call", Signer: "c1", Svc: "s1", Provs: []string{"p1", "p2"}, Cap: 10, Timeout: 2}, // p1 at half price
		{Name: "Call", Signer: "c2", Svc: "s1", Provs: []string{"p3"}, Cap: 10, Timeout: 2, Super: true},
		eb(1),
		{Name: "UpdateBinding", Signer: "o1", Svc: "s1", Prov: "p2", HasPr: true, Pr: pr(3)}, // cheaper while its request is pending
		{Name: "Respond", Signer: "p3", Rid: rid(3, 1, 2, 0), Kind: "bad"},                   // 21 -> 19 < 20: disabled
		eb(1),
		eb(1), // p1: 21 -> 19 < 20 disabled; p2: 12 -> 11 >= 10 stays
		{Name: "Obs"},
		eb(1),
	}
	add("slash-threshold-is-of-the-current-price", smallParams(), nil, ops...)

	// the first named provider is not eligible when the consumer cannot pay (pause) and when a module
	// context falls short of its threshold (skip); later it is eligible again and must be served
	ops = registry(map[string]int64{"p1": 5, "p2": 3, "p3": 4})
	ops = append(ops,
		Ev{Name: "Disable", Signer: "o1", Svc: "s1", Prov: "p1"},
		Ev{Name: "Call", Signer: "c1", Svc: "s1", Provs: []string{"p1", "p2", "p3"}, Cap: 10, Timeout: 2, Rep: true, Freq: 2, Total: 4},
		Ev{Name: "ModCreate", Signer: "c2", Svc: "s1", Provs: []string{"p1", "p3", "p2"}, Cap: 10, Timeout: 2, Rep: true, Freq: 2, Total: 4, Thr: 3},
		eb(1), // c1 cannot pay p2+p3: paused; the module context has two eligible of three required: skipped
		Ev{Name: "Obs"},
		Ev{Name: "Enable", Signer: "o1", Svc: "s1", Prov: "p1"},
		Ev{Name: "BankSend", Signer: "o1", To: "c1", Amount: 60},
		Ev{Name: "Start", Signer: "c1", ID: 1},
		eb(1), eb(1),
		Ev{Name: "Respond", Signer: "p1", Rid: rid(1, 1, 2, 0), Kind: "valid"},
		Ev{Name: "Respond", Signer: "p1", Rid: rid(2, 2, 3, 0), Kind: "valid"},
		eb(1), eb(1), eb(1),
	)
	add("first-named-provider-ineligible-at-pause-and-skip", smallParams(), map[string]int64{"c1": 6}, ops...)

	// a time promotion and a volume promotion in force together: the price is the product, truncated once
	ops = []Ev{
		{Name: "Define", Signer: "o1", Svc: "s1"},
		{Name: "Bind", Signer: "o1", Svc: "s1", Prov: "p1", Deposit: 60, DShape: "ok", Qos: 1,
			Pr: MPricing{Price: 10, PT: []PromoT{{S: 1000, E: 1004, D: 25}}, PV: []PromoV{{V: 1, D: 90}}}},
		{Name: "Bind", Signer: "o1", Svc: "s1", Prov: "p2", Deposit: 60, DShape: "ok", Qos: 1,
			Pr: MPricing{Price: 7, PT: []PromoT{{S: 1000, E: 1004, D: 50}}, PV: []PromoV{{V: 1, D: 90}, {V: 2, D: 30}}}},
		{Name: "Call", Signer: "c1", Svc: "s1", Provs: []string{"p1", "p2"}, Cap: 10, Timeout: 1, Rep: true, Freq: 1, Total: 7},
	}
	for h := int64(1); h <= 7; h++ {
		ops = append(ops, eb(1),
			Ev{Name: "Respond", Signer: "p1", Rid: rid(1, h, h, 0), Kind: "valid"},
			Ev{Name: "Respond", Signer: "p2", Rid: rid(1, h, h, 1), Kind: "valid"})
	}
	ops = append(ops, eb(1), Ev{Name: "Withdraw", Signer: "o1"})
	add("both-promotions-truncate-once", smallParams(), map[string]int64{"c1": 200}, ops...)

	// zero-height restart with a batch in flight, a paused and a killed context, earnings and a refunded
	// binding; the new chain carries on: contexts are started again, run to their totals, earn, are withdrawn
	ops = registry(map[string]int64{"p1": 5, "p2": 3})
	ops = append(ops,
		Ev{Name: "SetWithdrawAddr", Signer: "o1", Addr: "w1"},
		Ev{Name: "Call", Signer: "c1", Svc: "s1", Provs: []string{"p1", "p2"}, Cap: 10, Timeout: 3, Rep: true, Freq: 3, Total: 2},
		Ev{Name: "Call", Signer: "c2", Svc: "s1", Provs: []string{"p2"}, Cap: 10, Timeout: 2, Rep: true, Freq: 2, Total: 3},
		Ev{Name: "Call", Signer: "c2", Svc: "s1", Provs: []string{"p1"}, Cap: 10, Timeout: 2, Rep: true, Freq: 4, Total: -1},
		Ev{Name: "ModCreate", Signer: "c1", Svc: "s1", Provs: []string{"p1", "p2"}, Cap: 10, Timeout: 2, Rep: true, Freq: 2, Total: 2, Thr: 1},
		eb(1),
		Ev{Name: "Respond", Signer: "p1", Rid: rid(1, 1, 1, 0), Kind: "valid"},
		Ev{Name: "Respond", Signer: "p2", Rid: rid(2, 1, 1, 0), Kind: "valid"},
		Ev{Name: "Kill", Signer: "c2", ID: 3},
		eb(1), // batches in flight: contexts 1, 3 (killed), 4
		Ev{Name: "PrepZeroHeight"},
		Ev{Name: "Genesis"},
		Ev{Name: "Restart"},
		Ev{Name: "Obs"},
		Ev{Name: "Respond", Signer: "p2", Rid: rid(1, 1, 1, 1), Kind: "valid"}, // a request of the old chain
		Ev{Name: "Withdraw", Signer: "o1"},
		Ev{Name: "Start", Signer: "c1", ID: 1},
		Ev{Name: "Start", Signer: "c2", ID: 2},
		Ev{Name: "Start", Signer: "c2", ID: 3}, // was killed before the export
		Ev{Name: "ModStart", Signer: "c1", ID: 4},
		Ev{Name: "Call", Signer: "c1", Svc: "s1", Provs: []string{"p1"}, Cap: 10, Timeout: 1},
		eb(1),
		Ev{Name: "Respond", Signer: "p1", Rid: rid(1, 2, 1, 0), Kind: "valid"},
		Ev{Name: "Respond", Signer: "p2", Rid: rid(2, 2, 1, 0), Kind: "valid"},
		eb(1), eb(1), eb(1), eb(1), eb(1), eb(1), eb(1),
		Ev{Name: "Withdraw", Signer: "o1"},
		Ev{Name: "Disable", Signer: "o1", Svc: "s1", Prov: "p2"},
		eb(6),
		Ev{Name: "RefundDeposit", Signer: "o1", Svc: "s1", Prov: "p2"},
		Ev{Name: "PrepZeroHeight"},
		Ev{Name: "Genesis"},
		Ev{Name: "Restart"},
		Ev{Name: "Enable", Signer: "o1", Svc: "s1", Prov: "p2", Deposit: 40, DShape: "ok"},
		eb(1),
	)
	add("zero-height-restart-and-on", smallParams(), map[string]int64{"c1": 200, "c2": 200}, ops...)

	// D12: contexts that have had all their batches when the chain is exported (a one-shot and a repeated
	// one with total 1, their batches in flight; a repeated one in its second batch of two) are started
	// again on the new chain: they are finished there, not issued one batch more
	ops = registry(map[string]int64{"p1": 5, "p2": 3})
	ops = append(ops,
		Ev{Name: "Call", Signer: "c1", Svc: "s1", Provs: []string{"p1"}, Cap: 10, Timeout: 3},
		Ev{Name: "Call", Signer: "c1", Svc: "s1", Provs: []string{"p2"}, Cap: 10, Timeout: 3, Rep: true, Freq: 3, Total: 1},
		Ev{Name: "Call", Signer: "c2", Svc: "s1", Provs: []string{"p1", "p2"}, Cap: 10, Timeout: 1, Rep: true, Freq: 1, Total: 2},
		Ev{Name: "Call", Signer: "c2", Svc: "s1", Provs: []string{"p1"}, Cap: 10, Timeout: 2, Rep: true, Freq: 2, Total: 3},
		eb(1), eb(1),
		Ev{Name: "PrepZeroHeight"},
		Ev{Name: "Genesis"},
		Ev{Name: "Restart"},
		Ev{Name: "Start", Signer: "c1", ID: 1},
		Ev{Name: "Start", Signer: "c1", ID: 2},
		Ev{Name: "Start", Signer: "c2", ID: 3},
		Ev{Name: "Start", Signer: "c2", ID: 4},
		eb(1),
		Ev{Name: "Obs"},
		eb(1), eb(1), eb(1), eb(1), eb(1),
	)
	add("D12-restart-with-batches-used-up", smallParams(), map[string]int64{"c1": 200, "c2": 200}, ops...)

	// the total is lowered to the number of batches already issued while the context waits for its next
	// batch (frequency above timeout): when that block comes the context is finished, not served again
	ops = registry(map[string]int64{"p1": 5})
	ops = append(ops,
		Ev{Name: "Call", Signer: "c1", Svc: "s1", Provs: []string{"p1"}, Cap: 10, Timeout: 1, Rep: true, Freq: 3, Total: 3},
		Ev{Name: "Call", Signer: "c2", Svc: "s1", Provs: []string{"p1"}, Cap: 10, Timeout: 1, Rep: true, Freq: 3, Total: 3},
		eb(1), eb(1), // batch 1 expired, batch 2 due at height 4
		Ev{Name: "UpdateContext", Signer: "c1", ID: 1, Total: 1},
		Ev{Name: "Pause", Signer: "c2", ID: 2},
		Ev{Name: "UpdateContext", Signer: "c2", ID: 2, Total: 1},
		eb(1),
		Ev{Name: "Start", Signer: "c2", ID: 2},
		eb(1), eb(1), eb(1),
	)
	add("total-lowered-to-the-batches-had", smallParams(), nil, ops...)

	// re-entrancy: the owning module pauses or kills its context from inside the callback - the response
	// callback of a batch answered in full, the response callback at a batch's expiry, and the state callback
	// that reports the consumer out of funds
	ops = registry(map[string]int64{"p1": 5, "p2": 3})
	mod := func(signer string, thr int64, rr, rs string) Ev {
		return Ev{Name: "ModCreate", Signer: signer, Svc: "s1", Provs: []string{"p1", "p2"}, Cap: 10, Timeout: 2, Rep: true,
			Freq: 3, Total: 4, Thr: thr, RResp: rr, RState: rs}
	}
	ops = append(ops,
		mod("c1", 1, "kill", ""),  // 1: killed when its first batch is answered in full
		mod("c1", 2, "pause", ""), // 2: paused when its first batch expires, half answered
		mod("c1", 1, "kill", ""),  // 3: killed when its first batch expires
		mod("c2", 1, "", "kill"),  // 4: killed when c2 cannot pay the second batch
		mod("c2", 1, "pause", "pause"),
		eb(1),
		Ev{Name: "Respond", Signer: "p1", Rid: rid(1, 1, 1, 0), Kind: "valid"},
		Ev{Name: "Respond", Signer: "p2", Rid: rid(1, 1, 1, 1), Kind: "valid"},
		Ev{Name: "Obs"},
		Ev{Name: "Respond", Signer: "p1", Rid: rid(2, 1, 1, 0), Kind: "valid"},
		Ev{Name: "Respond", Signer: "p1", Rid: rid(5, 1, 1, 0), Kind: "valid"},
		Ev{Name: "Respond", Signer: "p2", Rid: rid(5, 1, 1, 1), Kind: "bad"},
		eb(1), eb(1),
		Ev{Name: "Obs"},
		Ev{Name: "ModStart", Signer: "c1", ID: 2},
		Ev{Name: "ModStart", Signer: "c1", ID: 1},
		Ev{Name: "ModStart", Signer: "c2", ID: 5},
		// c2 is emptied: its contexts cannot pay their second batches (state callbacks: 4 is killed; 5 is paused already)
		Ev{Name: "BankSend", Signer: "c2", To: "o2", Amount: 32},
		Ev{Name: "BankSend", Signer: "c2", To: "o2", Amount: 16},
		Ev{Name: "BankSend", Signer: "c2", To: "o2", Amount: 8},
		Ev{Name: "BankSend", Signer: "c2", To: "o2", Amount: 4},
		Ev{Name: "BankSend", Signer: "c2", To: "o2", Amount: 2},
		Ev{Name: "BankSend", Signer: "c2", To: "o2", Amount: 1},
		eb(1),
		Ev{Name: "Obs"},
		Ev{Name: "BankSend", Signer: "o2", To: "c2", Amount: 40},
		Ev{Name: "ModStart", Signer: "c2", ID: 4}, // killed: stays so
		Ev{Name: "ModStart", Signer: "c2", ID: 5},
		eb(1), eb(1), eb(1), eb(1),
	)
	add("module-reacts-inside-its-callbacks", smallParams(), map[string]int64{"c1": 200, "c2": 40}, ops...)

	return hs
}

// ParamScenarios: governance changes the parameters while bindings, contexts and requests exist
func ParamScenarios() []History {
	var hs []History
	add := func(tag string, p *MParams, bal map[string]int64, ops ...Ev) {
		hs = append(hs, History{Reset: baseReset(tag, p, bal), Ops: ops})
	}
	rid := func(id, batch, h, idx int64) [4]int64 { return [4]int64{id, batch, h, idx} }
	with := func(f func(p *MParams)) Ev {
		p := *smallParams()
		f(&p)
		return Ev{Name: "SetParams", RParams: &p}
	}

	// the maximum request timeout is lowered below the timeout of a running repeated context: the context
	// keeps its timeout and its cadence, its requests their lifetime; new calls and updates obey the new maximum
	ops := registry(map[string]int64{"p1": 5, "p2": 3})
	ops = append(ops,
		Ev{Name: "Call", Signer: "c1", Svc: "s1", Provs: []string{"p1", "p2"}, Cap: 10, Timeout: 5, Rep: true, Freq: 5, Total: 4},
		eb(1),
		with(func(p *MParams) { p.MaxTimeout = 2 }),
		Ev{Name: "Respond", Signer: "p1", Rid: rid(1, 1, 1, 0), Kind: "valid"},
		Ev{Name: "Call", Signer: "c2", Svc: "s1", Provs: []string{"p1"}, Cap: 10, Timeout: 3}, // above the new maximum
		Ev{Name: "Call", Signer: "c2", Svc: "s1", Provs: []string{"p1"}, Cap: 10, Timeout: 2}, // at it
		Ev{Name: "UpdateContext", Signer: "c1", ID: 1, Timeout: 4, Freq: 5},                   // above it
		Ev{Name: "UpdateBinding", Signer: "o1", Svc: "s1", Prov: "p2", Qos: 3},                // above it
		eb(1), eb(1), eb(1), eb(1), eb(1), // batch 2 starts at height 6 under the old timeout of 5
		Ev{Name: "Obs"},
		Ev{Name: "Respond", Signer: "p1", Rid: rid(1, 2, 6, 0), Kind: "valid"},
		eb(1), eb(1), eb(1),
		Ev{Name: "Respond", Signer: "p2", Rid: rid(1, 2, 6, 1), Kind: "valid"}, // height 10: beyond the new maximum, within its own timeout
		eb(1), eb(1), // batch 3 at height 11
		Ev{Name: "Respond", Signer: "p1", Rid: rid(1, 3, 11, 0), Kind: "valid"},
		Ev{Name: "Respond", Signer: "p2", Rid: rid(1, 3, 11, 1), Kind: "valid"},
		with(func(p *MParams) { p.MaxTimeout = 6 }),
		eb(1), eb(1), eb(1), eb(1), eb(1), eb(1), eb(1), eb(1), eb(1), eb(1), eb(1),
		Ev{Name: "Withdraw", Signer: "o1"},
	)
	add("max-timeout-lowered-under-a-running-context", smallParams(), map[string]int64{"c1": 200}, ops...)

	// no slashing (fraction 0) and a minimum deposit raised after the bind: a timeout and a malformed answer
	// still count as slashes, which find the binding below its minimum and disable it; tax 0 and tax changes
	// between two responses; the refund lock shortened after the disable
	ops = registry(map[string]int64{"p1": 5, "p2": 3, "p3": 4})
	ops = append(ops,
		Ev{Name: "Call", Signer: "c1", Svc: "s1", Provs: []string{"p1", "p2", "p3"}, Cap: 10, Timeout: 2, Rep: true, Freq: 3, Total: 3},
		eb(1),
		with(func(p *MParams) { p.Slash = 0; p.MinDeposit = 50 }),
		Ev{Name: "Respond", Signer: "p2", Rid: rid(1, 1, 1, 1), Kind: "bad"},
		Ev{Name: "Respond", Signer: "p3", Rid: rid(1, 1, 1, 2), Kind: "valid"},
		Ev{Name: "Bind", Signer: "o2", Svc: "s1", Prov: "pz", Deposit: 40, DShape: "ok", Pr: pr(2), Qos: 1}, // below the new minimum
		Ev{Name: "UpdateBinding", Signer: "o2", Svc: "s1", Prov: "p3", Qos: 2},                              // response time only, below the new minimum
		eb(1), eb(1), // p1 times out: not a coin is taken, and it is disabled
		with(func(p *MParams) { p.Slash = 0; p.MinDeposit = 50; p.Tax = 0; p.RefundDelay = 2 }),
		eb(1),
		Ev{Name: "Respond", Signer: "p3", Rid: rid(1, 2, 4, 0), Kind: "valid"},
		eb(1),
		Ev{Name: "RefundDeposit", Signer: "o1", Svc: "s1", Prov: "p1"},
		with(func(p *MParams) { p.Tax = 999; p.Slash = 1000 }),
		eb(1), eb(1), eb(1),
		Ev{Name: "Respond", Signer: "p3", Rid: rid(1, 3, 7, 0), Kind: "valid"},
		eb(1), eb(1), eb(1),
		Ev{Name: "Withdraw", Signer: "o2"},
	)
	add("no-slash-raised-minimum-tax-changes", smallParams(), nil, ops...)

	// parameter-change proposals the module's validators refuse (a slash fraction above 1 and below 0, a tax of
	// 1, a maximum timeout of 0, a multiple of 0, a period of 0), among ones at the edges they accept
	ops = registry(map[string]int64{"p1": 5, "p2": 3})
	ops = append(ops,
		Ev{Name: "Call", Signer: "c1", Svc: "s1", Provs: []string{"p1", "p2"}, Cap: 10, Timeout: 2, Rep: true, Freq: 2, Total: 3},
		eb(1),
		with(func(p *MParams) { p.Slash = 1500 }),
		Ev{Name: "Call", Signer: "c2", Svc: "s1", Provs: []string{"p1", "p2"}, Cap: 10, Timeout: 1},
		eb(1),
		Ev{Name: "Respond", Signer: "p2", Rid: rid(2, 1, 2, 1), Kind: "bad"}, // slashed under the fraction in force, the old one
		with(func(p *MParams) { p.Slash = -500 }),
		eb(1), // p1 times out on the second call: slashed under the old fraction
		with(func(p *MParams) { p.Tax = 1000 }),
		with(func(p *MParams) { p.MaxTimeout = 0 }),
		with(func(p *MParams) { p.Multiple = 0 }),
		with(func(p *MParams) { p.RefundDelay = 0 }),
		with(func(p *MParams) { p.Slash = 1000; p.Tax = 999 }),
		Ev{Name: "Respond", Signer: "p1", Rid: rid(1, 1, 1, 0), Kind: "valid"},
		Ev{Name: "Respond", Signer: "p2", Rid: rid(1, 1, 1, 1), Kind: "bad"},
		eb(1), eb(1),
		with(func(p *MParams) { p.Slash = 0; p.Tax = 0 }),
		eb(1), eb(1), eb(1),
		Ev{Name: "Withdraw", Signer: "o1"},
	)
	add("proposals-the-validators-refuse", smallParams(), nil, ops...)

	// no global minimum deposit (the parameter is the empty coin set): the price alone bounds the deposit,
	// at bind, re-pricing, enabling and when a slash takes the deposit below it
	free := &MParams{MaxTimeout: 6, Multiple: 10, MinDeposit: 0, Tax: 100, Slash: 500, RefundDelay: 6}
	ops = []Ev{
		{Name: "Define", Signer: "o1", Svc: "s1"},
		{Name: "Bind", Signer: "o1", Svc: "s1", Prov: "p1", Deposit: 50, DShape: "ok", Pr: pr(5), Qos: 1},  // exactly price x multiple
		{Name: "Bind", Signer: "o1", Svc: "s1", Prov: "p2", Deposit: 29, DShape: "ok", Pr: pr(3), Qos: 1},  // one short
		{Name: "Bind", Signer: "o1", Svc: "s1", Prov: "p2", Deposit: 30, DShape: "ok", Pr: pr(3), Qos: 1},
		{Name: "Bind", Signer: "o2", Svc: "s1", Prov: "p3", Deposit: 1, DShape: "ok", Pr: pr(0), Qos: 1},   // price 0: nothing is required
		{Name: "UpdateBinding", Signer: "o1", Svc: "s1", Prov: "p1", HasPr: true, Pr: pr(6)},              // needs 60, holds 50
		{Name: "UpdateBinding", Signer: "o1", Svc: "s1", Prov: "p1", HasPr: true, Pr: pr(6), Deposit: 9, DShape: "ok"},
		{Name: "UpdateBinding", Signer: "o1", Svc: "s1", Prov: "p1", HasPr: true, Pr: pr(6), Deposit: 10, DShape: "ok"},
		{Name: "Disable", Signer: "o1", Svc: "s1", Prov: "p2"},
		{Name: "UpdateBinding", Signer: "o1", Svc: "s1", Prov: "p2", HasPr: true, Pr: pr(4)}, // unavailable: not checked
		{Name: "Enable", Signer: "o1", Svc: "s1", Prov: "p2", Deposit: 9, DShape: "ok"},      // needs 40, would hold 39
		{Name: "Enable", Signer: "o1", Svc: "s1", Prov: "p2", Deposit: 10, DShape: "ok"},
		{Name: "Call", Signer: "c1", Svc: "s1", Provs: []string{"p1", "p2", "p3"}, Cap: 10, Timeout: 2},
		eb(1),
		{Name: "Respond", Signer: "p3", Rid: rid(1, 1, 1, 2), Kind: "bad"}, // p3: price 0, half of 1 is 0: still available
		eb(1), eb(1), // p1 and p2 time out: half their deposits, below the price-based minimum: disabled
		{Name: "Obs"},
		eb(6),
		{Name: "RefundDeposit", Signer: "o1", Svc: "s1", Prov: "p1"}, // the deposit goes, the price (6: a minimum of 60) stays
		{Name: "Enable", Signer: "o1", Svc: "s1", Prov: "p1", Deposit: 59, DShape: "ok"},
		{Name: "Enable", Signer: "o1", Svc: "s1", Prov: "p1", Deposit: 60, DShape: "ok"},
		{Name: "PrepZeroHeight"},
		{Name: "Genesis"},
	}
	add("no-global-minimum-deposit", free, nil, ops...)

	// governance raises the minimum deposit over what the bindings hold, and the chain is exported: the
	// export validates and a fresh chain takes it (available bindings and all), then goes on
	ops = registry(map[string]int64{"p1": 5, "p2": 3})
	ops = append(ops,
		Ev{Name: "Call", Signer: "c1", Svc: "s1", Provs: []string{"p1", "p2"}, Cap: 10, Timeout: 2, Rep: true, Freq: 3, Total: 3},
		eb(1),
		with(func(p *MParams) { p.MinDeposit = 70; p.Multiple = 3 }),
		Ev{Name: "Respond", Signer: "p1", Rid: rid(1, 1, 1, 0), Kind: "valid"},
		Ev{Name: "PrepZeroHeight"},
		Ev{Name: "Genesis"},
		Ev{Name: "Restart"},
		Ev{Name: "Start", Signer: "c1", ID: 1},
		eb(1), eb(1), eb(1),
	)
	add("export-after-the-minimum-was-raised", smallParams(), nil, ops...)

	return hs
}
