package main

// The mini-chain: drives the real irismod/service code the way baseapp does.
//   - a message is passed to ValidateBasic, then delivered to service.NewHandler on a
//     CacheContext carrying tx_hash / msg_index; the cache is written only on success;
//     a panic is recovered and counts as failure (outcome "panic");
//   - service.EndBlocker runs on the block context, its sub-steps are observed through
//     the verif-tagged EndBlockHook; then height and time advance.

import (
	"reflect"
	abci "github.com/tendermint/tendermint/abci/types"
	"context"
	"crypto/sha256"
	"encoding/binary"
	"encoding/json"
	"fmt"
	"sort"
	"strings"
	"time"

	tmbytes "github.com/tendermint/tendermint/libs/bytes"
	tmproto "github.com/tendermint/tendermint/proto/tendermint/types"

	sdk "github.com/cosmos/cosmos-sdk/types"
	authtypes "github.com/cosmos/cosmos-sdk/x/auth/types"
	banktypes "github.com/cosmos/cosmos-sdk/x/bank/types"

	service "github.com/irismod/service"
	simapp "github.com/irismod/service/app"
	"github.com/irismod/service/keeper"
	"github.com/irismod/service/types"
)

const (
	Denom     = "stake"
	Scale     = 100  // discounts are n/100
	FScale    = 1000 // tax and slash fraction are n/1000
	TimeBase  = int64(1600000000)
	// block times carry nanoseconds, as Tendermint's do: every instant of the model is this far into its
	// millisecond, so a time that the code truncates or rounds on the way is not the instant it was
	TimeBaseNanos = int64(123456789)
	NowOffset = int64(1000) // model time 1000 = TimeBase
	// one unit of model time is 100 ms: block times, disabling times, promotion windows and the refund
	// delay are not aligned to whole seconds
	TimeUnit = 100 * time.Millisecond
	ModName  = "vmod" // the test module owning module contexts
	// a second test module that registered a response callback only, and a third that registered nothing:
	// the keeper must not open a context for either
	ModNameRespOnly = "vmodr"
	ModNameNone     = "vmodn"
)

// Params in model terms
type MParams struct {
	MaxTimeout  int64 `json:"maxTimeout"`
	Multiple    int64 `json:"multiple"`
	MinDeposit  int64 `json:"minDeposit"`
	Tax         int64 `json:"tax"`   // over FScale
	Slash       int64 `json:"slash"` // over FScale
	RefundDelay int64 `json:"refundDelay"`
	// Lax: the minimum collateral was raised by a parameter change earlier in this history
	Lax bool `json:"lax"`
}

func DefaultMParams() MParams {
	return MParams{MaxTimeout: 100, Multiple: 200, MinDeposit: 6000, Tax: 100, Slash: 1, RefundDelay: 20}
}

// sdkParams writes model parameters as the module's parameter set.  The refund delay is split into
// an arbitration and a complaint period that differ, so that a lock built from one of them twice is
// not the lock of both.
func sdkParams(p MParams) types.Params {
	arb := secs((p.RefundDelay + 2) / 3) // both periods must be positive: the delay is at least 2
	comp := secs(p.RefundDelay - (p.RefundDelay+2)/3)
	return types.NewParams(
		p.MaxTimeout, p.Multiple, sdk.NewCoins(sdk.NewCoin(Denom, sdk.NewInt(p.MinDeposit))),
		sdk.NewDecWithPrec(p.Tax, 3), sdk.NewDecWithPrec(p.Slash, 3), comp, arb, 4000, Denom,
	)
}

// SetParams: governance replaces the module parameters, between transactions - the way a parameter-change
// proposal does it: every parameter goes through the module's parameter subspace (x/params Subspace.Update,
// amino JSON in, the module's own validator for that key applied), and a proposal of which one change is
// refused changes nothing
func (c *Chain) SetParams(p MParams) (out Outcome) {
	defer func() {
		if r := recover(); r != nil {
			out = Outcome{OK: false, Panic: true, Err: fmt.Sprint(r)}
		}
	}()
	sp := sdkParams(p)
	ss := c.App.GetSubspace(types.ModuleName)
	ctx, write := c.Ctx.CacheContext()
	amino := c.App.LegacyAmino()
	for _, pair := range sp.ParamSetPairs() {
		bz, err := amino.MarshalJSON(reflect.Indirect(reflect.ValueOf(pair.Value)).Interface())
		if err != nil {
			return Outcome{OK: false, Err: err.Error()}
		}
		if err := ss.Update(ctx, pair.Key, bz); err != nil {
			return Outcome{OK: false, Err: err.Error()}
		}
	}
	write()
	p.Lax = c.Params.Lax || p.MinDeposit > c.Params.MinDeposit || p.Multiple > c.Params.Multiple
	c.Params = p
	return Outcome{OK: true}
}

// storedParams reads the parameters in force back from the store
func (c *Chain) storedParams(ctx sdk.Context) MParams {
	sp := c.K.GetParams(ctx)
	return MParams{
		MaxTimeout: sp.MaxRequestTimeout, Multiple: sp.MinDepositMultiple,
		MinDeposit:  sp.MinDeposit.AmountOf(Denom).Int64(),
		Tax:         sp.ServiceFeeTax.MulInt64(FScale).TruncateInt64(),
		Slash:       sp.SlashFraction.MulInt64(FScale).TruncateInt64(),
		RefundDelay: int64((sp.ArbitrationTimeLimit + sp.ComplaintRetrospect) / TimeUnit),
		Lax:         c.Params.Lax,
	}
}

type Callback struct {
	Kind  string   `json:"kind"`
	ID    int      `json:"id"`
	Outs  []string `json:"outs"`
	Err   bool     `json:"err"`
	Cause string   `json:"cause"`
}

type Chain struct {
	App     *simapp.SimApp
	K       keeper.Keeper
	Ctx     sdk.Context
	Handler sdk.Handler
	Height  int64
	Now     int64 // model seconds
	Phase   string
	Params  MParams

	Names    []string                  // ordinary account names, in order
	Addr     map[string]sdk.AccAddress // name -> address (ordinary and module accounts)
	NameOf   map[string]string         // string(address bytes) -> name
	CtxIDs   map[string]int            // string(context id bytes) -> model id
	CtxBytes map[int][]byte
	NCtx     int
	TxSeq    uint64

	LastTxHash   []byte // what the host application supplied to the message in progress
	LastMsgIndex int64

	cbs     []Callback // callbacks of the step in progress
	ModSvcs map[string]string
	// what the test module does from inside its callbacks, per context: on a response callback, on a
	// state callback ("" | "pause" | "kill" | "start" | "cap1"), to which context (0: the one the
	// callback is about); and the consumer it acts for
	React     map[int]Reaction
	ReactCons map[int]string
	HasModSvc bool // the test module service is registered
	Prepared  bool // the zero-height preparation has run on this chain

	// the events the end blocker emitted, per height: what an off-chain client reads back from a node
	EndEvents map[int64][]abci.Event

	// a transaction of several messages in progress: the messages run on one branch of the block state,
	// which is kept only if all of them succeed; they share the transaction hash and are numbered
	tx *txState

	// sub-step observer for EndBlocker (set by the driver)
	OnSub func(stage string, id int)

	// the requests listed by the new_batch_request event(s) of the sub-step in progress, in order
	EvReqs []EvReq
	evSeen int
}

// EvReq is one entry of the "requests" attribute of a new_batch_request event
type EvReq struct {
	Ctx   int    `json:"ctx"`
	Batch int64  `json:"batch"`
	Prov  string `json:"prov"`
	Fee   int64  `json:"fee"`
	Rh    int64  `json:"rh"`
	Exp   int64  `json:"exp"`
}

// addrOf derives the address of a named account.  "x+" is the address of x extended by one byte
// (21 bytes), "x-" its first 19 bytes: the address shapes of finding D8.
func addrOf(name string) sdk.AccAddress {
	if strings.HasSuffix(name, "+") {
		return append(append(sdk.AccAddress{}, addrOf(strings.TrimSuffix(name, "+"))...), 0x01)
	}
	if strings.HasSuffix(name, "-") {
		return append(sdk.AccAddress{}, addrOf(strings.TrimSuffix(name, "-"))[:19]...)
	}
	h := sha256.Sum256([]byte("verif-account-" + name))
	if strings.HasPrefix(name, "pz") {
		h[7] = 0 // an ordinary 20-byte address that happens to contain a zero byte
	}
	return sdk.AccAddress(h[:20])
}

func modelTime(t time.Time) int64 {
	if t.IsZero() || t.Unix() < TimeBase-NowOffset {
		return 0
	}
	return int64(t.Sub(time.Unix(TimeBase, TimeBaseNanos))/TimeUnit) + NowOffset
}

func secs(n int64) time.Duration { return time.Duration(n) * TimeUnit }

func realTime(m int64) time.Time {
	return time.Unix(TimeBase, TimeBaseNanos).Add(time.Duration(m-NowOffset) * TimeUnit).UTC()
}

var registeredApps = 0

// NewChain builds a fresh application with the given parameters and balances.
func NewChain(p MParams, names []string, bal map[string]int64) *Chain {
	app := simapp.Setup(false)
	c := &Chain{
		App: app, K: app.ServiceKeeper, Height: 1, Now: NowOffset, Phase: "deliver", Params: p,
		Names: append([]string{}, names...), Addr: map[string]sdk.AccAddress{}, NameOf: map[string]string{},
		CtxIDs: map[string]int{}, CtxBytes: map[int][]byte{}, ModSvcs: map[string]string{},
		React: map[int]Reaction{}, ReactCons: map[int]string{}, EndEvents: map[int64][]abci.Event{},
	}
	c.Ctx = app.BaseApp.NewContext(false, tmproto.Header{Height: c.Height, Time: realTime(c.Now)})
	c.Handler = service.NewHandler(c.K)

	c.K.SetParams(c.Ctx, sdkParams(p))

	total := int64(0)
	for _, n := range names {
		a := addrOf(n)
		c.Addr[n] = a
		c.NameOf[string(a)] = n
		acc := app.AccountKeeper.NewAccountWithAddress(c.Ctx, a)
		app.AccountKeeper.SetAccount(c.Ctx, acc)
		if bal[n] > 0 {
			if _, err := app.BankKeeper.AddCoins(c.Ctx, a, sdk.NewCoins(sdk.NewCoin(Denom, sdk.NewInt(bal[n])))); err != nil {
				panic(err)
			}
			total += bal[n]
		}
	}
	prev := app.BankKeeper.GetSupply(c.Ctx).GetTotal()
	app.BankKeeper.SetSupply(c.Ctx, banktypes.NewSupply(prev.Add(sdk.NewCoin(Denom, sdk.NewInt(total)))))

	for n, mod := range map[string]string{"DEP": types.DepositAccName, "REQ": types.RequestAccName, "TAX": authtypes.FeeCollectorName} {
		a := app.AccountKeeper.GetModuleAddress(mod)
		c.Addr[n] = a
		c.NameOf[string(a)] = n
		if bal[n] > 0 { // a restarted chain: the module accounts' holdings are carried over
			if _, err := app.BankKeeper.AddCoins(c.Ctx, a, sdk.NewCoins(sdk.NewCoin(Denom, sdk.NewInt(bal[n])))); err != nil {
				panic(err)
			}
			sup := app.BankKeeper.GetSupply(c.Ctx).GetTotal()
			app.BankKeeper.SetSupply(c.Ctx, banktypes.NewSupply(sup.Add(sdk.NewCoin(Denom, sdk.NewInt(bal[n])))))
		}
	}

	// the test module that owns module contexts: recording callbacks
	// (the callbacks record into the chain - or the branch of it - that is executing the step)
	activeChain = c
	_ = c.K.RegisterResponseCallback(ModName, func(ctx sdk.Context, id tmbytes.HexBytes, outs []string, err error) {
		a := activeChain
		a.cbs = append(a.cbs, Callback{Kind: "resp", ID: a.CtxIDs[string(id)], Outs: append([]string{}, outs...), Err: err != nil})
		a.react(ctx, id, 0)
	})
	_ = c.K.RegisterStateCallback(ModName, func(ctx sdk.Context, id tmbytes.HexBytes, cause string) {
		a := activeChain
		a.cbs = append(a.cbs, Callback{Kind: "state", ID: a.CtxIDs[string(id)], Outs: []string{}, Cause: cause})
		a.react(ctx, id, 1)
	})

	_ = c.K.RegisterResponseCallback(ModNameRespOnly, func(ctx sdk.Context, id tmbytes.HexBytes, outs []string, err error) {
		a := activeChain
		a.cbs = append(a.cbs, Callback{Kind: "resp", ID: a.CtxIDs[string(id)], Outs: append([]string{}, outs...), Err: err != nil})
	})

	service.EndBlockHook = nil
	return c
}

// Reaction: what the test module does from inside its callbacks for one of its contexts
type Reaction struct {
	Resp, State string
	Tgt         int
}

// react: the test module answers a callback by calling the keeper again - for the context the callback
// is about or for another one
func (c *Chain) react(ctx sdk.Context, id tmbytes.HexBytes, which int) {
	n := c.CtxIDs[string(id)]
	r := c.React[n]
	op := r.Resp
	if which == 1 {
		op = r.State
	}
	if op == "" {
		return
	}
	t, tid := n, []byte(id)
	if r.Tgt != 0 {
		t, tid = r.Tgt, c.CtxID(r.Tgt)
	}
	cons := c.A(c.ReactCons[n])
	var err error
	switch op {
	case "pause":
		err = c.K.PauseRequestContext(ctx, tid, cons)
	case "kill":
		err = c.K.KillRequestContext(ctx, tid, cons)
	case "start":
		err = c.K.StartRequestContext(ctx, tid, cons)
	case "cap1":
		err = c.K.UpdateRequestContext(ctx, tid, nil, 0, sdk.NewCoins(sdk.NewCoin(Denom, sdk.NewInt(1))), 0, 0, 0, cons)
	}
	c.cbs = append(c.cbs, Callback{Kind: "react", ID: t, Outs: []string{}, Cause: op, Err: err != nil})
}

// RegisterTestModuleService registers a module service (finding D9; the repository's own
// application registers none): service "msvc", provided by account p3
func (c *Chain) RegisterTestModuleService() {
	c.HasModSvc = true
	_ = c.K.RegisterModuleService("vsvcmod", &types.ModuleService{
		ServiceName: "msvc", Provider: c.A("p3"),
		ReuquestService: func(ctx sdk.Context, input string) (string, string) {
			return `{"code":200,"message":""}`, `{"header":{},"body":{}}`
		},
	})
}

func (c *Chain) Name(a []byte) string {
	if n, ok := c.NameOf[string(a)]; ok {
		return n
	}
	return fmt.Sprintf("?%x", a)
}

func (c *Chain) A(name string) sdk.AccAddress {
	if name == "" {
		return nil
	}
	if a, ok := c.Addr[name]; ok {
		return a
	}
	// an account outside the pool: still a well-formed 20-byte address
	a := addrOf(name)
	c.Addr[name] = a
	c.NameOf[string(a)] = name
	return a
}

func (c *Chain) nextTxHash() []byte {
	c.TxSeq++
	var b [8]byte
	binary.BigEndian.PutUint64(b[:], c.TxSeq)
	h := sha256.Sum256(append([]byte("verif-tx-"), b[:]...))
	return h[:]
}

type txState struct {
	base   sdk.Context
	write  func()
	failed bool
	hash   []byte
	idx    int64
	// the harness's own bookkeeping at the start of the transaction
	nctx      int
	ctxIDs    map[string]int
	ctxBytes  map[int][]byte
	react     map[int]Reaction
	reactCons map[int]string
}

// BeginTx opens a transaction: until EndTx, messages are delivered to a branch of the block state
func (c *Chain) BeginTx() {
	if c.tx != nil || c.Phase != "deliver" {
		return
	}
	t := &txState{base: c.Ctx, hash: c.nextTxHash(), nctx: c.NCtx, ctxIDs: map[string]int{}, ctxBytes: map[int][]byte{},
		react: map[int]Reaction{}, reactCons: map[int]string{}}
	for k, v := range c.CtxIDs {
		t.ctxIDs[k] = v
	}
	for k, v := range c.CtxBytes {
		t.ctxBytes[k] = v
	}
	for k, v := range c.React {
		t.react[k] = v
	}
	for k, v := range c.ReactCons {
		t.reactCons[k] = v
	}
	var branch sdk.Context
	branch, t.write = c.Ctx.CacheContext()
	c.Ctx = branch
	c.tx = t
}

// EndTx closes the transaction: its effects are kept if every message succeeded, discarded otherwise
// (the store's, by dropping the branch; the harness's own bookkeeping, from the snapshot)
func (c *Chain) EndTx() (committed bool) {
	t := c.tx
	c.tx = nil
	c.Ctx = t.base
	if t.failed {
		c.NCtx, c.CtxIDs, c.CtxBytes, c.React, c.ReactCons = t.nctx, t.ctxIDs, t.ctxBytes, t.react, t.reactCons
		return false
	}
	t.write()
	return true
}

type Outcome struct {
	OK    bool
	Panic bool
	Err   string
	Basic bool // failed ValidateBasic: not part of any property's quantifier
}

// run executes f on a cache of the block context and commits it only on success.
func (c *Chain) run(f func(ctx sdk.Context) error) (out Outcome) {
	activeChain = c
	cacheCtx, write := c.Ctx.CacheContext()
	if c.tx != nil {
		c.LastTxHash, c.LastMsgIndex = c.tx.hash, c.tx.idx
		c.tx.idx++
	} else {
		c.LastTxHash = c.nextTxHash()
		c.LastMsgIndex = int64(c.TxSeq % 3) // not always the first message of its transaction
	}
	cacheCtx = cacheCtx.WithContext(context.WithValue(
		context.WithValue(cacheCtx.Context(), types.TxHash, c.LastTxHash), types.MsgIndex, c.LastMsgIndex))
	saved := len(c.cbs)
	defer func() {
		if r := recover(); r != nil {
			c.cbs = c.cbs[:saved]
			out = Outcome{OK: false, Panic: true, Err: fmt.Sprint(r)}
		}
	}()
	if err := f(cacheCtx); err != nil {
		c.cbs = c.cbs[:saved]
		return Outcome{OK: false, Err: err.Error()}
	}
	write()
	c.registerNewContexts()
	return Outcome{OK: true}
}

// Deliver passes a message through ValidateBasic and the module's handler.
func (c *Chain) Deliver(msg sdk.Msg) Outcome {
	if err := msg.ValidateBasic(); err != nil {
		return Outcome{OK: false, Basic: true, Err: err.Error()}
	}
	return c.run(func(ctx sdk.Context) error {
		_, err := c.Handler(ctx, msg)
		return err
	})
}

// registerNewContexts names contexts by creation order, from the raw store.
func (c *Chain) registerNewContexts() {
	store := c.Ctx.KVStore(c.App.GetKey(types.StoreKey))
	it := sdk.KVStorePrefixIterator(store, types.RequestContextKey)
	defer it.Close()
	var fresh [][]byte
	for ; it.Valid(); it.Next() {
		id := it.Key()[1:]
		if _, ok := c.CtxIDs[string(id)]; !ok {
			fresh = append(fresh, append([]byte{}, id...))
		}
	}
	sort.Slice(fresh, func(i, j int) bool { return string(fresh[i]) < string(fresh[j]) })
	for _, id := range fresh {
		c.NCtx++
		c.CtxIDs[string(id)] = c.NCtx
		c.CtxBytes[c.NCtx] = id
	}
}

// CtxID returns the real id of model context n, or a well-formed id that does not exist.
func (c *Chain) CtxID(n int) []byte {
	if b, ok := c.CtxBytes[n]; ok {
		return b
	}
	h := sha256.Sum256([]byte(fmt.Sprintf("verif-noctx-%d", n)))
	return append(h[:], 0, 0, 0, 0, 0, 0, 0, 0)
}

// EndBlock runs the real EndBlocker on the block context; sub-steps are reported through OnSub.
func (c *Chain) EndBlock(dt int64) (out Outcome) {
	activeChain = c
	service.EndBlockHook = func(ctx sdk.Context, stage string, id []byte) {
		n := 0
		if id != nil {
			n = c.CtxIDs[string(id)]
		}
		c.collectBatchEvents(ctx)
		switch stage {
		case "expire":
			c.Phase = "expire"
		case "mid", "start":
			c.Phase = "start"
		}
		if c.OnSub != nil {
			c.OnSub(stage, n)
		}
	}
	defer func() {
		service.EndBlockHook = nil
		if r := recover(); r != nil {
			out = Outcome{OK: false, Panic: true, Err: fmt.Sprint(r)}
		}
	}()
	c.Phase = "expire"
	if c.OnSub != nil {
		c.OnSub("begin", 0)
	}
	c.Ctx = c.Ctx.WithEventManager(sdk.NewEventManager())
	c.evSeen = 0
	c.EvReqs = nil
	service.EndBlocker(c.Ctx, c.K)
	c.EndEvents[c.Height] = c.Ctx.EventManager().ABCIEvents()
	c.Height++
	c.Now += dt
	c.Phase = "deliver"
	c.Ctx = c.Ctx.WithBlockHeight(c.Height).WithBlockTime(realTime(c.Now)).
		WithBlockHeader(tmproto.Header{Height: c.Height, Time: realTime(c.Now)})
	if c.OnSub != nil {
		c.OnSub("end", int(dt))
	}
	return Outcome{OK: true}
}

// collectBatchEvents reads the new_batch_request events emitted since the previous sub-step:
// off-chain clients find a request again by its position in that event's list
func (c *Chain) collectBatchEvents(ctx sdk.Context) {
	evs := ctx.EventManager().Events()
	c.EvReqs = []EvReq{}
	for _, e := range evs[c.evSeen:] {
		if e.Type != types.EventTypeNewBatchRequest {
			continue
		}
		var reqs []types.CompactRequest
		for _, a := range e.Attributes {
			if string(a.Key) == types.AttributeKeyRequests {
				_ = json.Unmarshal(a.Value, &reqs)
			}
		}
		for _, r := range reqs {
			var anom []string
			c.registerNewContexts()
			c.EvReqs = append(c.EvReqs, EvReq{Ctx: c.CtxIDs[string(r.RequestContextId)], Batch: int64(r.RequestContextBatchCounter),
				Prov: c.Name(r.Provider), Fee: c.amount(r.ServiceFee, "event fee", &anom), Rh: r.RequestHeight, Exp: r.ExpirationHeight})
		}
	}
	c.evSeen = len(evs)
}

func (c *Chain) TakeCallbacks() []Callback {
	r := c.cbs
	c.cbs = nil
	if r == nil {
		r = []Callback{}
	}
	return r
}
