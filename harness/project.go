package main

// Projection: the abstract state of the specification computed from a raw iteration of the
// service store (decoded by key prefix) and from the bank keeper.  It does not call the
// keeper getters, listing functions or query servers the properties are about, and it does
// not repair anything: both queue tables, both pending indexes and both pricing
// representations are reported as found.

import (
	"bytes"
	"crypto/sha256"
	"encoding/binary"
	"encoding/hex"
	"encoding/json"
	"fmt"
	"sort"

	gogotypes "github.com/gogo/protobuf/types"

	sdk "github.com/cosmos/cosmos-sdk/types"
	"github.com/cosmos/cosmos-sdk/types/bech32"

	"github.com/irismod/service/types"
)

type DefRec struct {
	Name   string `json:"name"`
	Author string `json:"author"`
	Dg     string `json:"dg"`
}
type BindRec struct {
	Svc   string   `json:"svc"`
	Prov  string   `json:"prov"`
	Owner string   `json:"owner"`
	Dep   int64    `json:"dep"`
	Pr    MPricing `json:"pr"`
	Sp    MPricing `json:"sp"`
	Qos   int64    `json:"qos"`
	Avail bool     `json:"avail"`
	Dtime int64    `json:"dtime"`
}
type PORec struct {
	P string `json:"p"`
	O string `json:"o"`
}
type WARec struct {
	O string `json:"o"`
	W string `json:"w"`
}
type CtxRec struct {
	ID        int      `json:"id"`
	Svc       string   `json:"svc"`
	Provs     []string `json:"provs"`
	Cons      string   `json:"cons"`
	Input     string   `json:"input"`
	Cap       int64    `json:"cap"`
	Timeout   int64    `json:"timeout"`
	Super     bool     `json:"super"`
	Rep       bool     `json:"rep"`
	Freq      int64    `json:"freq"`
	Total     int64    `json:"total"`
	Batch     int64    `json:"batch"`
	ReqCount  int64    `json:"reqCount"`
	RespCount int64    `json:"respCount"`
	BThr      int64    `json:"bthr"`
	BState    string   `json:"bstate"`
	State     string   `json:"state"`
	Thr       int64    `json:"thr"`
	Module    string   `json:"module"`
	RResp     string   `json:"rresp"`
	RState    string   `json:"rstate"`
	RTgt      int      `json:"rtgt"`
}
type QHRec struct {
	ID int   `json:"id"`
	H  int64 `json:"h"`
}
type ReqRec struct {
	Rid   [4]int64 `json:"rid"`
	Ctx   int      `json:"ctx"`
	Batch int64    `json:"batch"`
	Prov  string   `json:"prov"`
	Fee   int64    `json:"fee"`
	Rh    int64    `json:"rh"`
	Exp   int64    `json:"exp"`
}
type ABRec struct {
	Svc  string   `json:"svc"`
	Prov string   `json:"prov"`
	Exp  int64    `json:"exp"`
	Rid  [4]int64 `json:"rid"`
}
type RespRec struct {
	Rid   [4]int64 `json:"rid"`
	Prov  string   `json:"prov"`
	Cons  string   `json:"cons"`
	Kind  string   `json:"kind"`
	Out   string   `json:"out"`
	Ctx   int      `json:"ctx"`
	Batch int64    `json:"batch"`
}
type VolRec struct {
	C string `json:"c"`
	S string `json:"s"`
	P string `json:"p"`
	N int64  `json:"n"`
}
type EFRec struct {
	K string `json:"k"`
	N int64  `json:"n"`
}

type State struct {
	Height  int64            `json:"height"`
	Now     int64            `json:"now"`
	Phase   string           `json:"phase"`
	Params  MParams          `json:"params"`
	Bal     map[string]int64 `json:"bal"`
	Supply  int64            `json:"supply"`
	Defs    []DefRec         `json:"defs"`
	Bind    []BindRec        `json:"bind"`
	POwner  []PORec          `json:"powner"`
	OProv   [][2]string      `json:"oprov"`
	OBind   [][3]string      `json:"obind"`
	WAddr   []WARec          `json:"waddr"`
	NCtx    int              `json:"nctx"`
	Ctx     []CtxRec         `json:"ctx"`
	NewQ    [][2]int64       `json:"newQ"`
	NewQH   []QHRec          `json:"newQH"`
	ExpQ    [][2]int64       `json:"expQ"`
	ExpQH   []QHRec          `json:"expQH"`
	Req     []ReqRec         `json:"req"`
	ActId   [][4]int64       `json:"actId"`
	ActBind []ABRec          `json:"actBind"`
	Resp    []RespRec        `json:"resp"`
	Vol     []VolRec         `json:"vol"`
	Earned  []EFRec          `json:"earned"`
	OEarned []EFRec          `json:"oearned"`
	Anom    []string         `json:"anom"`

	dg string
}

const BigInt = int64(2000000000) // TLC integers are 32 bit

func (c *Chain) amount(coins sdk.Coins, what string, anom *[]string) int64 {
	n := int64(0)
	for _, co := range coins {
		if co.Denom != Denom {
			*anom = append(*anom, fmt.Sprintf("%s: coin of denomination %s", what, co.Denom))
			continue
		}
		if !co.Amount.IsInt64() || co.Amount.Int64() > BigInt || co.Amount.Int64() < 0 {
			*anom = append(*anom, fmt.Sprintf("%s: amount %s out of the model's range", what, co.Amount))
			continue
		}
		n += co.Amount.Int64()
	}
	return n
}

func clip(n int64, what string, anom *[]string) int64 {
	if n > BigInt || n < -BigInt {
		*anom = append(*anom, fmt.Sprintf("%s: %d out of the model's range", what, n))
		if n > 0 {
			return BigInt
		}
		return -BigInt
	}
	return n
}

func decToScale(d sdk.Dec, what string, anom *[]string) int64 {
	x := d.MulInt64(Scale)
	if !x.IsInteger() {
		*anom = append(*anom, fmt.Sprintf("%s: discount %s finer than the model's scale", what, d))
	}
	return x.TruncateInt64()
}

func (c *Chain) storedPricing(p types.Pricing, what string, anom *[]string) MPricing {
	m := MPricing{PT: []PromoT{}, PV: []PromoV{}}
	m.Price = c.amount(p.Price, what+" price", anom)
	for _, t := range p.PromotionsByTime {
		m.PT = append(m.PT, PromoT{S: modelTime(t.StartTime), E: modelTime(t.EndTime), D: decToScale(t.Discount, what, anom)})
	}
	for _, v := range p.PromotionsByVolume {
		m.PV = append(m.PV, PromoV{V: int64(v.Volume), D: decToScale(v.Discount, what, anom)})
	}
	return m
}

// ridOf decodes a 58-byte request id with the harness's own reading of the layout
func (c *Chain) ridOf(b []byte, what string, anom *[]string) [4]int64 {
	if len(b) != 58 {
		*anom = append(*anom, fmt.Sprintf("C18 %s: request id of length %d", what, len(b)))
		return [4]int64{0, 0, 0, 0}
	}
	id, ok := c.CtxIDs[string(b[:40])]
	if !ok {
		*anom = append(*anom, fmt.Sprintf("C18 %s: request id %x names no known context", what, b))
	}
	return [4]int64{int64(id),
		clip(int64(binary.BigEndian.Uint64(b[40:48])), what, anom),
		clip(int64(binary.BigEndian.Uint64(b[48:56])), what, anom),
		int64(int16(binary.BigEndian.Uint16(b[56:58])))}
}

func (c *Chain) ctxOf(b []byte, what string, anom *[]string) int {
	id, ok := c.CtxIDs[string(b)]
	if !ok {
		*anom = append(*anom, fmt.Sprintf("C18 %s: context id %x unknown", what, b))
	}
	return id
}

func (c *Chain) accOfBech32(s string, what string, anom *[]string) string {
	// (decoded without the 20-byte length rule: the module stores whatever address it was given)
	_, a, err := bech32.DecodeAndConvert(s)
	if err != nil {
		*anom = append(*anom, fmt.Sprintf("C18 %s: %q is not an address", what, s))
		return "?" + s
	}
	return c.Name(a)
}

// knownPrefixes lists the known addresses that are a prefix of b, longest first.  Keys that
// concatenate raw address bytes without a length can only be read back against the accounts
// of the history; a key that can be read in two ways is reported as ambiguous (C18).
func (c *Chain) knownPrefixes(b []byte) [][]byte {
	var r [][]byte
	for a := range c.NameOf {
		if len(a) > 0 && len(a) <= len(b) && string(b[:len(a)]) == a {
			r = append(r, []byte(a))
		}
	}
	sort.Slice(r, func(i, j int) bool { return len(r[i]) > len(r[j]) })
	return r
}

// OutputKind classifies a response output by the harness's own reading of the output schema
func OutputKind(out string) string {
	if out == "" {
		return "none"
	}
	var v map[string]json.RawMessage
	if err := json.Unmarshal([]byte(out), &v); err != nil {
		return "bad"
	}
	isObj := func(r json.RawMessage) bool {
		var o map[string]json.RawMessage
		return json.Unmarshal(r, &o) == nil && o != nil
	}
	h, ok := v["header"]
	if !ok || !isObj(h) {
		return "bad"
	}
	if b, ok := v["body"]; ok && !isObj(b) {
		return "bad"
	}
	return "valid"
}

func ctxStateName(s types.RequestContextState) string {
	switch s {
	case types.RUNNING:
		return "running"
	case types.PAUSED:
		return "paused"
	case types.COMPLETED:
		return "completed"
	}
	return fmt.Sprintf("state%d", int(s))
}

func batchStateName(s types.RequestContextBatchState) string {
	switch s {
	case types.BATCHRUNNING:
		return "running"
	case types.BATCHCOMPLETED:
		return "completed"
	}
	return fmt.Sprintf("bstate%d", int(s))
}

func (c *Chain) Project() *State {
	return c.ProjectCtx(c.Ctx)
}

func (c *Chain) ProjectCtx(ctx sdk.Context) *State {
	cdc := c.App.AppCodec()
	st := &State{
		Height: c.Height, Now: c.Now, Phase: c.Phase, Params: c.storedParams(ctx), Bal: map[string]int64{},
		Defs: []DefRec{}, Bind: []BindRec{}, POwner: []PORec{}, OProv: [][2]string{}, OBind: [][3]string{},
		WAddr: []WARec{}, Ctx: []CtxRec{}, NewQ: [][2]int64{}, NewQH: []QHRec{}, ExpQ: [][2]int64{}, ExpQH: []QHRec{},
		Req: []ReqRec{}, ActId: [][4]int64{}, ActBind: []ABRec{}, Resp: []RespRec{}, Vol: []VolRec{},
		Earned: []EFRec{}, OEarned: []EFRec{}, Anom: []string{}, NCtx: c.NCtx,
	}
	anom := &st.Anom

	for _, n := range c.Names {
		st.Bal[n] = c.amount(sdk.NewCoins(c.App.BankKeeper.GetBalance(ctx, c.Addr[n], Denom)), "balance "+n, anom)
	}
	for _, n := range []string{"DEP", "REQ", "TAX"} {
		st.Bal[n] = c.amount(c.App.BankKeeper.GetAllBalances(ctx, c.Addr[n]), "balance "+n, anom)
	}
	st.Supply = c.amount(sdk.NewCoins(sdk.NewCoin(Denom, c.App.BankKeeper.GetSupply(ctx).GetTotal().AmountOf(Denom))), "supply", anom)

	pricings := map[string]MPricing{}
	store := ctx.KVStore(c.App.GetKey(types.StoreKey))
	it := store.Iterator(nil, nil)
	defer it.Close()
	for ; it.Valid(); it.Next() {
		key := append([]byte{}, it.Key()...)
		val := append([]byte{}, it.Value()...)
		body := key[1:]
		switch key[0] {
		case 0x01:
			var d types.ServiceDefinition
			cdc.MustUnmarshalBinaryBare(val, &d)
			if d.Name != string(body) {
				*anom = append(*anom, fmt.Sprintf("C15 definition key %q holds name %q", body, d.Name))
			}
			if err := d.Validate(); err != nil {
				*anom = append(*anom, fmt.Sprintf("C15 stored definition %s invalid: %v", d.Name, err))
			}
			h := sha256.Sum256(val)
			st.Defs = append(st.Defs, DefRec{Name: string(body), Author: c.Name(d.Author), Dg: hex.EncodeToString(h[:4])})
		case 0x02:
			var b types.ServiceBinding
			cdc.MustUnmarshalBinaryBare(val, &b)
			parts := bytes.SplitN(body, []byte{0}, 2)
			if len(parts) != 2 || string(parts[0]) != b.ServiceName || string(parts[1]) != b.Provider.String() {
				*anom = append(*anom, fmt.Sprintf("C15 binding key %q does not name %s/%s", body, b.ServiceName, b.Provider))
			}
			if err := b.Validate(); err != nil {
				*anom = append(*anom, fmt.Sprintf("C15 stored binding %s/%s invalid: %v", b.ServiceName, c.Name(b.Provider), err))
			}
			pr, denom, err := ParsePricingText(b.Pricing)
			if err != nil || denom != Denom {
				*anom = append(*anom, fmt.Sprintf("C15 binding %s/%s: published pricing unreadable: %v %s", b.ServiceName, c.Name(b.Provider), err, denom))
			}
			st.Bind = append(st.Bind, BindRec{
				Svc: b.ServiceName, Prov: c.Name(b.Provider), Owner: c.Name(b.Owner),
				Dep: c.amount(b.Deposit, "deposit", anom), Pr: pr, Qos: clip(int64(b.QoS), "qos", anom),
				Avail: b.Available, Dtime: modelTime(b.DisabledTime),
			})
		case 0x03:
			// owner | service | 0x00 | provider
			var reads [][3]string
			for _, o := range c.knownPrefixes(body) {
				rest := body[len(o):]
				if i := bytes.IndexByte(rest, 0); i > 0 {
					if _, ok := c.NameOf[string(rest[i+1:])]; ok {
						reads = append(reads, [3]string{c.Name(o), string(rest[:i]), c.Name(rest[i+1:])})
					}
				}
			}
			if len(reads) != 1 {
				*anom = append(*anom, fmt.Sprintf("C18 owner-binding key %x can be read in %d ways", key, len(reads)))
			}
			if len(reads) > 0 {
				st.OBind = append(st.OBind, reads[0])
			}
		case 0x04:
			var o gogotypes.BytesValue
			cdc.MustUnmarshalBinaryBare(val, &o)
			st.POwner = append(st.POwner, PORec{P: c.Name(body), O: c.Name(o.Value)})
		case 0x05:
			var reads [][2]string
			for _, o := range c.knownPrefixes(body) {
				if _, ok := c.NameOf[string(body[len(o):])]; ok {
					reads = append(reads, [2]string{c.Name(o), c.Name(body[len(o):])})
				}
			}
			if len(reads) != 1 {
				*anom = append(*anom, fmt.Sprintf("C18 owner-provider key %x can be read in %d ways", key, len(reads)))
			}
			if len(reads) > 0 {
				st.OProv = append(st.OProv, reads[0])
			}
		case 0x06:
			var p types.Pricing
			cdc.MustUnmarshalBinaryBare(val, &p)
			parts := bytes.SplitN(body, []byte{0}, 2)
			if len(parts) != 2 {
				*anom = append(*anom, fmt.Sprintf("C18 pricing key %x malformed", key))
				continue
			}
			pricings[string(parts[0])+"/"+c.accOfBech32(string(parts[1]), "pricing key", anom)] = c.storedPricing(p, "stored pricing", anom)
		case 0x07:
			st.WAddr = append(st.WAddr, WARec{O: c.Name(body), W: c.Name(val)})
		case 0x08:
			var r types.RequestContext
			cdc.MustUnmarshalBinaryBare(val, &r)
			provs := []string{}
			for _, p := range r.Providers {
				provs = append(provs, c.Name(p))
			}
			cid := c.ctxOf(body, "context key", anom)
			st.Ctx = append(st.Ctx, CtxRec{
				RResp: c.React[cid].Resp, RState: c.React[cid].State, RTgt: c.React[cid].Tgt,
				ID: cid, Svc: r.ServiceName, Provs: provs, Cons: c.Name(r.Consumer),
				Input: r.Input, Cap: c.amount(r.ServiceFeeCap, "fee cap", anom), Timeout: clip(r.Timeout, "timeout", anom),
				Super: r.SuperMode, Rep: r.Repeated, Freq: clip(int64(r.RepeatedFrequency), "frequency", anom),
				Total: clip(r.RepeatedTotal, "total", anom), Batch: clip(int64(r.BatchCounter), "batch", anom),
				ReqCount: int64(r.BatchRequestCount), RespCount: int64(r.BatchResponseCount),
				BThr: int64(r.BatchResponseThreshold), BState: batchStateName(r.BatchState),
				State: ctxStateName(r.State), Thr: int64(r.ResponseThreshold), Module: r.ModuleName,
			})
		case 0x09, 0x10:
			var v gogotypes.BytesValue
			cdc.MustUnmarshalBinaryBare(val, &v)
			if len(body) != 48 || !bytes.Equal(body[8:], v.Value) {
				*anom = append(*anom, fmt.Sprintf("C18 queue key %x does not match its value %x", key, v.Value))
				continue
			}
			e := [2]int64{clip(int64(binary.BigEndian.Uint64(body[:8])), "queue height", anom), int64(c.ctxOf(body[8:], "queue key", anom))}
			if key[0] == 0x09 {
				st.ExpQ = append(st.ExpQ, e)
			} else {
				st.NewQ = append(st.NewQ, e)
			}
		case 0x11, 0x12:
			var v gogotypes.Int64Value
			cdc.MustUnmarshalBinaryBare(val, &v)
			e := QHRec{ID: c.ctxOf(body, "queue pointer key", anom), H: clip(v.Value, "queue pointer", anom)}
			if key[0] == 0x11 {
				st.ExpQH = append(st.ExpQH, e)
			} else {
				st.NewQH = append(st.NewQH, e)
			}
		case 0x13:
			var r types.CompactRequest
			cdc.MustUnmarshalBinaryBare(val, &r)
			st.Req = append(st.Req, ReqRec{
				Rid: c.ridOf(body, "request key", anom), Ctx: c.ctxOf(r.RequestContextId, "request record", anom),
				Batch: clip(int64(r.RequestContextBatchCounter), "request batch", anom), Prov: c.Name(r.Provider),
				Fee: c.amount(r.ServiceFee, "request fee", anom), Rh: clip(r.RequestHeight, "request height", anom),
				Exp: clip(r.ExpirationHeight, "expiration height", anom),
			})
		case 0x14:
			// service | 0x00 | bech32(provider) | 0x00 | expiration(8) | request id(58)
			var v gogotypes.BytesValue
			cdc.MustUnmarshalBinaryBare(val, &v)
			if len(body) < 58+8+1+3 || body[len(body)-67] != 0 {
				*anom = append(*anom, fmt.Sprintf("C18 active-request key %x malformed", key))
				continue
			}
			rid := body[len(body)-58:]
			if !bytes.Equal(rid, v.Value) {
				*anom = append(*anom, fmt.Sprintf("C18 active-request key %x does not match its value", key))
			}
			parts := bytes.SplitN(body[:len(body)-67], []byte{0}, 2)
			if len(parts) != 2 {
				*anom = append(*anom, fmt.Sprintf("C18 active-request key %x malformed", key))
				continue
			}
			st.ActBind = append(st.ActBind, ABRec{
				Svc: string(parts[0]), Prov: c.accOfBech32(string(parts[1]), "active-request key", anom),
				Exp: clip(int64(binary.BigEndian.Uint64(body[len(body)-66:len(body)-58])), "active expiration", anom),
				Rid: c.ridOf(rid, "active-request key", anom),
			})
		case 0x15:
			var v gogotypes.BytesValue
			cdc.MustUnmarshalBinaryBare(val, &v)
			if !bytes.Equal(body, v.Value) {
				*anom = append(*anom, fmt.Sprintf("C18 active-by-id key %x does not match its value", key))
			}
			st.ActId = append(st.ActId, c.ridOf(body, "active-by-id key", anom))
		case 0x16:
			var r types.Response
			cdc.MustUnmarshalBinaryBare(val, &r)
			st.Resp = append(st.Resp, RespRec{
				Rid: c.ridOf(body, "response key", anom), Prov: c.Name(r.Provider), Cons: c.Name(r.Consumer),
				Kind: OutputKind(r.Output), Out: r.Output, Ctx: c.ctxOf(r.RequestContextId, "response record", anom),
				Batch: clip(int64(r.RequestContextBatchCounter), "response batch", anom),
			})
		case 0x17:
			var v gogotypes.UInt64Value
			cdc.MustUnmarshalBinaryBare(val, &v)
			parts := bytes.Split(body, []byte{0})
			if len(parts) != 4 || len(parts[3]) != 0 {
				*anom = append(*anom, fmt.Sprintf("C18 volume key %x malformed", key))
				continue
			}
			st.Vol = append(st.Vol, VolRec{
				C: c.accOfBech32(string(parts[0]), "volume key", anom), S: string(parts[1]),
				P: c.accOfBech32(string(parts[2]), "volume key", anom), N: clip(int64(v.Value), "volume", anom),
			})
		case 0x18:
			var co sdk.Coin
			cdc.MustUnmarshalBinaryBare(val, &co)
			var reads [][]byte
			for _, a := range c.knownPrefixes(body) {
				if string(body[len(a):]) == co.Denom {
					reads = append(reads, a)
				}
			}
			if len(reads) != 1 {
				*anom = append(*anom, fmt.Sprintf("C18 earned-fees key %x (coin %s) can be read in %d ways", key, co, len(reads)))
			}
			if len(reads) > 0 {
				st.Earned = append(st.Earned, EFRec{K: c.Name(reads[0]), N: c.amount(sdk.Coins{co}, "earned fees", anom)})
			}
		case 0x19:
			var co sdk.Coin
			cdc.MustUnmarshalBinaryBare(val, &co)
			st.OEarned = append(st.OEarned, EFRec{K: c.Name(body), N: c.amount(sdk.Coins{co}, "owner earned fees", anom)})
		default:
			// a record under a prefix the specification does not know is outside every listed property
			// (its one-byte prefix cannot coincide with a known record's); the records it may have been
			// meant to be are then missing from their own prefix, which the projection shows
		}
	}
	for i := range st.Bind {
		k := st.Bind[i].Svc + "/" + st.Bind[i].Prov
		if sp, ok := pricings[k]; ok {
			st.Bind[i].Sp = sp
			delete(pricings, k)
		} else {
			st.Bind[i].Sp = MPricing{Price: -1, PT: []PromoT{}, PV: []PromoV{}}
			*anom = append(*anom, fmt.Sprintf("C15 binding %s has no stored price terms", k))
		}
	}
	for k := range pricings {
		*anom = append(*anom, fmt.Sprintf("C15 stored price terms %s without a binding", k))
	}
	sort.Strings(st.Anom)
	if ctx.KVStore(c.App.GetKey(types.StoreKey)) != nil {
		st.dg = c.digestCtx(ctx)
	}
	sort.Slice(st.Ctx, func(i, j int) bool { return st.Ctx[i].ID < st.Ctx[j].ID })
	return st
}

// Digest of the consensus state: the raw service store, the tracked balances and supply (C20)
func (c *Chain) Digest() string { return c.digestCtx(c.Ctx) }

func (c *Chain) digestCtx(ctx sdk.Context) string {
	h := sha256.New()
	store := ctx.KVStore(c.App.GetKey(types.StoreKey))
	it := store.Iterator(nil, nil)
	defer it.Close()
	for ; it.Valid(); it.Next() {
		var l [8]byte
		binary.BigEndian.PutUint32(l[:4], uint32(len(it.Key())))
		binary.BigEndian.PutUint32(l[4:], uint32(len(it.Value())))
		h.Write(l[:])
		h.Write(it.Key())
		h.Write(it.Value())
	}
	names := append([]string{}, c.Names...)
	names = append(names, "DEP", "REQ", "TAX")
	for _, n := range names {
		h.Write([]byte(n))
		h.Write([]byte(c.App.BankKeeper.GetAllBalances(ctx, c.Addr[n]).String()))
	}
	h.Write([]byte(c.App.BankKeeper.GetSupply(ctx).GetTotal().String()))
	return hex.EncodeToString(h.Sum(nil)[:12])
}
