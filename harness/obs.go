package main

// Observation of the module's own read paths at a reached state (C17, listing part of C15):
// every gRPC query method and every legacy querier route is called with arguments drawn from
// the existing and non-existing services, owners, providers, contexts, batches and requests
// of that state.  Results are summarised as digests of the canonical protobuf bytes of the
// records returned; the ground truth (`T*` tables) is computed from the raw store scan, not
// through the query path.  TLC compares the two (ServiceTrace.tla, QueriesOK).

import (
	"bytes"
	"fmt"
	"crypto/sha256"
	"encoding/hex"
	"sort"

	gogotypes "github.com/gogo/protobuf/types"
	abci "github.com/tendermint/tendermint/abci/types"
	tmbytes "github.com/tendermint/tendermint/libs/bytes"
	rpcclient "github.com/tendermint/tendermint/rpc/client"
	ctypes "github.com/tendermint/tendermint/rpc/core/types"

	"github.com/cosmos/cosmos-sdk/client"
	"github.com/cosmos/cosmos-sdk/codec"
	sdk "github.com/cosmos/cosmos-sdk/types"

	"github.com/irismod/service/client/utils"
	"github.com/irismod/service/keeper"
	"github.com/irismod/service/types"
)

type QArg struct {
	Svc   string   `json:"svc"`
	Prov  string   `json:"prov"`
	Owner string   `json:"owner"`
	ID    int      `json:"id"`
	Batch int64    `json:"batch"`
	Rid   [4]int64 `json:"rid"`
	Name  string   `json:"name"`
}

type QueryObs struct {
	Q    string   `json:"q"`
	Arg  QArg     `json:"arg"`
	Grpc []string `json:"grpc"` // digests of the records returned; ["ERR"] for an error
	Leg  []string `json:"leg"`
	// request listings only: the identifiers of the requests returned, decoded by the harness (C18)
	Rids  [][4]int64 `json:"rids"`
	LRids [][4]int64 `json:"lrids"`
}

type KeyDg struct {
	Svc  string   `json:"svc"`
	Prov string   `json:"prov"`
	ID   int      `json:"id"`
	Rid  [4]int64 `json:"rid"`
	Dg   string   `json:"dg"`
}

type Observation struct {
	Queries []QueryObs `json:"queries"`
	TDefs   []KeyDg    `json:"tdefs"`
	TBind   []KeyDg    `json:"tbind"`
	TCtx    []KeyDg    `json:"tctx"`
	TReq    []KeyDg    `json:"treq"`
	TResp   []KeyDg    `json:"tresp"`
	TParams string     `json:"tparams"`
	TSchema []KeyDg    `json:"tschema"` // Svc = schema name
	Empty   string     `json:"empty"`
}

// feeStr renders earned fees as the decimal amount of the base denomination (anything else verbatim)
func feeStr(f sdk.Coins) string {
	if len(f) == 0 {
		return "0"
	}
	if len(f) == 1 && f[0].Denom == Denom {
		return f[0].Amount.String()
	}
	return f.String()
}

func dg(b []byte) string {
	h := sha256.Sum256(b)
	return hex.EncodeToString(h[:6])
}

func (c *Chain) dgOf(m codec.ProtoMarshaler) string {
	return dg(c.App.AppCodec().MustMarshalBinaryBare(m))
}

func errOr(err error, f func() []string) []string {
	if err != nil {
		return []string{"ERR"}
	}
	return f()
}

// obsNode is the node an off-chain client talks to: it answers the request-context query from the keeper
// and serves the events the real EndBlocker emitted at each height
type obsNode struct {
	rpcclient.Client // only the two methods below are used by client/utils
	ctx              sdk.Context
	c                *Chain
}

func (n obsNode) ABCIQueryWithOptions(path string, data tmbytes.HexBytes, _ rpcclient.ABCIQueryOptions) (*ctypes.ResultABCIQuery, error) {
	if path != "/irismod.service.Query/RequestContext" {
		return nil, fmt.Errorf("unexpected query path %s", path)
	}
	var req types.QueryRequestContextRequest
	if err := req.Unmarshal(data); err != nil {
		return nil, err
	}
	res, err := n.c.K.RequestContext(sdk.WrapSDKContext(n.ctx), &req)
	if err != nil {
		return nil, err
	}
	bz, err := res.Marshal()
	if err != nil {
		return nil, err
	}
	return &ctypes.ResultABCIQuery{Response: abci.ResponseQuery{Value: bz, Height: n.ctx.BlockHeight()}}, nil
}

func (n obsNode) BlockResults(height *int64) (*ctypes.ResultBlockResults, error) {
	return &ctypes.ResultBlockResults{Height: *height, EndBlockEvents: n.c.EndEvents[*height]}, nil
}

// byEvents: the request an off-chain client recovers from the identifier alone (client/utils
// QueryRequestByTxQuery: context from the node, the compact request from the issue event of the height
// the identifier names, at the position it names)
func (c *Chain) byEvents(ctx sdk.Context, rid []byte) (res []string) {
	defer func() {
		if r := recover(); r != nil {
			res = []string{"PANIC"}
		}
	}()
	cli := client.Context{}.WithClient(obsNode{ctx: ctx, c: c})
	x, err := utils.QueryRequestByTxQuery(cli, types.QuerierRoute, rid)
	if err != nil {
		return []string{"ERR"}
	}
	if x.Empty() {
		return []string{dg(nil)}
	}
	return []string{c.dgOf(&x)}
}

// Observe queries the state reached; the chain is not modified
func (c *Chain) Observe() *Observation {
	cdc := c.App.AppCodec()
	amino := c.App.LegacyAmino()
	ctx, _ := c.Ctx.CacheContext()
	o := &Observation{Queries: []QueryObs{}, TDefs: []KeyDg{}, TBind: []KeyDg{}, TCtx: []KeyDg{}, TReq: []KeyDg{},
		TResp: []KeyDg{}, TSchema: []KeyDg{}, Empty: dg(nil)}
	st := c.Project()

	// ---- ground truth from the raw store
	store := ctx.KVStore(c.App.GetKey(types.StoreKey))
	rawCtx := map[string]types.RequestContext{}
	it := store.Iterator(nil, nil)
	type rawReq struct {
		id  []byte
		val types.CompactRequest
	}
	var reqs []rawReq
	for ; it.Valid(); it.Next() {
		key, val := append([]byte{}, it.Key()...), append([]byte{}, it.Value()...)
		switch key[0] {
		case 0x01:
			o.TDefs = append(o.TDefs, KeyDg{Svc: string(key[1:]), Dg: dg(val)})
		case 0x02:
			parts := bytes.SplitN(key[1:], []byte{0}, 2)
			if len(parts) == 2 {
				a, _ := sdk.AccAddressFromBech32(string(parts[1]))
				o.TBind = append(o.TBind, KeyDg{Svc: string(parts[0]), Prov: c.Name(a), Dg: dg(val)})
			}
		case 0x08:
			var r types.RequestContext
			cdc.MustUnmarshalBinaryBare(val, &r)
			rawCtx[string(key[1:])] = r
			o.TCtx = append(o.TCtx, KeyDg{ID: c.CtxIDs[string(key[1:])], Dg: dg(val)})
		case 0x13:
			var r types.CompactRequest
			cdc.MustUnmarshalBinaryBare(val, &r)
			reqs = append(reqs, rawReq{id: key[1:], val: r})
		case 0x16:
			var anom []string
			o.TResp = append(o.TResp, KeyDg{Rid: c.ridOf(key[1:], "", &anom), Dg: dg(val)})
		}
	}
	it.Close()
	for _, r := range reqs {
		// a request as the queries must reconstruct it: the compact record joined with its context
		rc, ok := rawCtx[string(r.val.RequestContextId)]
		if !ok {
			continue
		}
		full := types.Request{Id: r.id, ServiceName: rc.ServiceName, Provider: r.val.Provider, Consumer: rc.Consumer,
			Input: rc.Input, ServiceFee: r.val.ServiceFee, SuperMode: rc.SuperMode, RequestHeight: r.val.RequestHeight,
			ExpirationHeight: r.val.ExpirationHeight, RequestContextId: r.val.RequestContextId,
			RequestContextBatchCounter: r.val.RequestContextBatchCounter}
		var anom []string
		o.TReq = append(o.TReq, KeyDg{Rid: c.ridOf(r.id, "", &anom), Dg: c.dgOf(&full)})
	}
	params := sdkParams(c.Params)
	o.TParams = c.dgOf(&params)
	o.TSchema = []KeyDg{{Svc: "pricing", Dg: dg([]byte(types.PricingSchema))}, {Svc: "result", Dg: dg([]byte(types.ResultSchema))},
		{Svc: "PRICING", Dg: dg([]byte(types.PricingSchema))}}

	// ---- the queries
	gctx := sdk.WrapSDKContext(ctx)
	legacy := keeper.NewQuerier(c.K, amino)
	leg := func(route string, params interface{}, decode func(bz []byte) ([]string, error)) []string {
		bz, err := legacy(ctx, []string{route}, abci.RequestQuery{Data: amino.MustMarshalJSON(params)})
		if err != nil {
			return []string{"ERR"}
		}
		r, err := decode(bz)
		if err != nil {
			return []string{"DECODE-ERR: " + err.Error()}
		}
		return r
	}
	add := func(q string, a QArg, g, l []string) {
		if g == nil {
			g = []string{}
		}
		if l == nil {
			l = []string{}
		}
		o.Queries = append(o.Queries, QueryObs{Q: q, Arg: a, Grpc: g, Leg: l, Rids: [][4]int64{}, LRids: [][4]int64{}})
	}
	// the request ids of the listing recorded last, as decoded from the answers
	var idAnom []string
	recIDs := func(g []*types.Request, l []types.Request) {
		q := &o.Queries[len(o.Queries)-1]
		for _, x := range g {
			q.Rids = append(q.Rids, c.ridOf(x.Id, "", &idAnom))
		}
		for _, x := range l {
			q.LRids = append(q.LRids, c.ridOf(x.Id, "", &idAnom))
		}
	}

	svcs := map[string]bool{"zz": true, "s": true, "s1": true, "s2": true, "s-1": true, "S1": true}
	for _, d := range st.Defs {
		svcs[d.Name] = true
	}
	var svcList []string
	for s := range svcs {
		svcList = append(svcList, s)
	}
	sort.Strings(svcList)
	provs := []string{"p1", "p2", "p3", "pz", "w1"}
	owners := []string{"", "o1", "o2", "c1"}

	for _, s := range svcList {
		res, err := c.K.Definition(gctx, &types.QueryDefinitionRequest{ServiceName: s})
		add("definition", QArg{Svc: s},
			errOr(err, func() []string { return []string{c.dgOf(res.ServiceDefinition)} }),
			leg(types.QueryDefinition, types.QueryDefinitionParams{ServiceName: s}, func(bz []byte) ([]string, error) {
				var d types.ServiceDefinition
				err := amino.UnmarshalJSON(bz, &d)
				return []string{c.dgOf(&d)}, err
			}))
		for _, p := range provs {
			res, err := c.K.Binding(gctx, &types.QueryBindingRequest{ServiceName: s, Provider: c.A(p)})
			add("binding", QArg{Svc: s, Prov: p},
				errOr(err, func() []string { return []string{c.dgOf(res.ServiceBinding)} }),
				leg(types.QueryBinding, types.QueryBindingParams{ServiceName: s, Provider: c.A(p)}, func(bz []byte) ([]string, error) {
					var b types.ServiceBinding
					err := amino.UnmarshalJSON(bz, &b)
					return []string{c.dgOf(&b)}, err
				}))
			var legReqs []types.Request
			resR, err := c.K.Requests(gctx, &types.QueryRequestsRequest{ServiceName: s, Provider: c.A(p)})
			add("requests", QArg{Svc: s, Prov: p},
				errOr(err, func() []string {
					r := []string{}
					for _, x := range resR.Requests {
						r = append(r, c.dgOf(x))
					}
					return r
				}),
				leg(types.QueryRequests, types.QueryRequestsParams{ServiceName: s, Provider: c.A(p)}, func(bz []byte) ([]string, error) {
					var xs []types.Request
					err := amino.UnmarshalJSON(bz, &xs)
					r := []string{}
					for i := range xs {
						r = append(r, c.dgOf(&xs[i]))
					}
					legReqs = xs
					return r, err
				}))
			if resR != nil {
				recIDs(resR.Requests, legReqs)
			} else {
				recIDs(nil, legReqs)
			}
		}
		for _, ow := range owners {
			res, err := c.K.Bindings(gctx, &types.QueryBindingsRequest{ServiceName: s, Owner: c.A(ow)})
			add("bindings", QArg{Svc: s, Owner: ow},
				errOr(err, func() []string {
					r := []string{}
					for _, b := range res.ServiceBindings {
						r = append(r, c.dgOf(b))
					}
					return r
				}),
				leg(types.QueryBindings, types.QueryBindingsParams{ServiceName: s, Owner: c.A(ow)}, func(bz []byte) ([]string, error) {
					var bs []*types.ServiceBinding
					err := amino.UnmarshalJSON(bz, &bs)
					r := []string{}
					for _, b := range bs {
						r = append(r, c.dgOf(b))
					}
					return r, err
				}))
		}
	}
	for _, ow := range []string{"o1", "o2", "c1"} {
		res, err := c.K.WithdrawAddress(gctx, &types.QueryWithdrawAddressRequest{Owner: c.A(ow)})
		add("withdraw_address", QArg{Owner: ow},
			errOr(err, func() []string { return []string{c.Name(res.WithdrawAddress)} }),
			leg(types.QueryWithdrawAddress, types.QueryWithdrawAddressParams{Owner: c.A(ow)}, func(bz []byte) ([]string, error) {
				var a sdk.AccAddress
				err := amino.UnmarshalJSON(bz, &a)
				return []string{c.Name(a)}, err
			}))
	}
	for _, p := range provs {
		res, err := c.K.EarnedFees(gctx, &types.QueryEarnedFeesRequest{Provider: c.A(p)})
		add("fees", QArg{Prov: p},
			errOr(err, func() []string { return []string{feeStr(res.Fees)} }),
			leg(types.QueryEarnedFees, types.QueryEarnedFeesParams{Provider: c.A(p)}, func(bz []byte) ([]string, error) {
				var f sdk.Coins
				err := amino.UnmarshalJSON(bz, &f)
				return []string{feeStr(f)}, err
			}))
	}
	ids := []int{c.NCtx + 1}
	for _, x := range st.Ctx {
		ids = append(ids, x.ID)
	}
	for _, id := range ids {
		idb := c.CtxID(id)
		res, err := c.K.RequestContext(gctx, &types.QueryRequestContextRequest{RequestContextId: idb})
		add("context", QArg{ID: id},
			errOr(err, func() []string { return []string{c.dgOf(res.RequestContext)} }),
			leg(types.QueryRequestContext, types.QueryRequestContextParams{RequestContextID: idb}, func(bz []byte) ([]string, error) {
				var x types.RequestContext
				err := amino.UnmarshalJSON(bz, &x)
				return []string{c.dgOf(&x)}, err
			}))
		batch := int64(1)
		for _, x := range st.Ctx {
			if x.ID == id {
				batch = x.Batch
			}
		}
		for _, b := range []int64{batch - 1, batch, batch + 1} {
			if b < 0 {
				continue
			}
			var legReqs []types.Request
			res, err := c.K.RequestsByReqCtx(gctx, &types.QueryRequestsByReqCtxRequest{RequestContextId: idb, BatchCounter: uint64(b)})
			add("requests_by_ctx", QArg{ID: id, Batch: b},
				errOr(err, func() []string {
					r := []string{}
					for _, x := range res.Requests {
						r = append(r, c.dgOf(x))
					}
					return r
				}),
				leg(types.QueryRequestsByReqCtx, types.QueryRequestsByReqCtxParams{RequestContextID: idb, BatchCounter: uint64(b)}, func(bz []byte) ([]string, error) {
					var xs []types.Request
					err := amino.UnmarshalJSON(bz, &xs)
					r := []string{}
					for i := range xs {
						r = append(r, c.dgOf(&xs[i]))
					}
					legReqs = xs
					return r, err
				}))
			if res != nil {
				recIDs(res.Requests, legReqs)
			} else {
				recIDs(nil, legReqs)
			}
			res2, err := c.K.Responses(gctx, &types.QueryResponsesRequest{RequestContextId: idb, BatchCounter: uint64(b)})
			add("responses", QArg{ID: id, Batch: b},
				errOr(err, func() []string {
					r := []string{}
					for _, x := range res2.Responses {
						r = append(r, c.dgOf(x))
					}
					return r
				}),
				leg(types.QueryResponses, types.QueryResponsesParams{RequestContextID: idb, BatchCounter: uint64(b)}, func(bz []byte) ([]string, error) {
					var xs []types.Response
					err := amino.UnmarshalJSON(bz, &xs)
					r := []string{}
					for i := range xs {
						r = append(r, c.dgOf(&xs[i]))
					}
					return r, err
				}))
		}
	}
	rids := [][4]int64{{1, 1, 1, 7}, {int64(c.NCtx + 1), 1, 1, 0}}
	for _, r := range st.Req {
		rids = append(rids, r.Rid)
	}
	for _, r := range rids {
		rb := c.ridBytes(r)
		res, err := c.K.Request(gctx, &types.QueryRequestRequest{RequestId: rb})
		add("request", QArg{Rid: r},
			errOr(err, func() []string { return []string{c.dgOf(res.Request)} }),
			leg(types.QueryRequest, types.QueryRequestParams{RequestID: rb}, func(bz []byte) ([]string, error) {
				var x types.Request
				err := amino.UnmarshalJSON(bz, &x)
				return []string{c.dgOf(&x)}, err
			}))
		gE := c.byEvents(ctx, rb)
		add("request_by_events", QArg{Rid: r}, gE, gE)
		res2, err := c.K.Response(gctx, &types.QueryResponseRequest{RequestId: rb})
		add("response", QArg{Rid: r},
			errOr(err, func() []string { return []string{c.dgOf(res2.Response)} }),
			leg(types.QueryResponse, types.QueryResponseParams{RequestID: rb}, func(bz []byte) ([]string, error) {
				var x types.Response
				err := amino.UnmarshalJSON(bz, &x)
				return []string{c.dgOf(&x)}, err
			}))
	}
	resP, err := c.K.Params(gctx, &types.QueryParamsRequest{})
	add("params", QArg{},
		errOr(err, func() []string { return []string{c.dgOf(&resP.Params)} }),
		func() []string {
			bz, err := legacy(ctx, []string{types.QueryParameters}, abci.RequestQuery{})
			if err != nil {
				return []string{"ERR"}
			}
			var p types.Params
			if err := amino.UnmarshalJSON(bz, &p); err != nil {
				return []string{"DECODE-ERR"}
			}
			return []string{c.dgOf(&p)}
		}())
	for _, n := range []string{"pricing", "result", "PRICING", "nothing"} {
		res, err := c.K.Schema(gctx, &types.QuerySchemaRequest{SchemaName: n})
		add("schema", QArg{Name: n},
			errOr(err, func() []string { return []string{dg([]byte(res.Schema))} }),
			leg(types.QuerySchema, types.QuerySchemaParams{SchemaName: n}, func(bz []byte) ([]string, error) {
				var s string
				err := amino.UnmarshalJSON(bz, &s)
				return []string{dg([]byte(s))}, err
			}))
	}
	_ = gogotypes.BytesValue{}
	return o
}
