package main

// Observation of the module's own read paths at a reached state (filled in by obsrun.go)
type Observation struct {
	Lists   []ListObs  `json:"lists,omitempty"`
	Queries []QueryObs `json:"queries,omitempty"`
}

type ListObs struct {
	Svc   string   `json:"svc"`
	Owner string   `json:"owner"` // "" = all owners
	Got   []string `json:"got"`   // providers of the bindings returned
}

type QueryObs struct {
	Q    string `json:"q"`
	Arg  string `json:"arg"`
	Grpc string `json:"grpc"`
	Leg  string `json:"leg"`
	Want string `json:"want"`
}
