package main

import (
	"bufio"
	"encoding/json"
	"fmt"
	"os"
)

type Line struct {
	Ev Ev         `json:"ev"`
	Cb []Callback `json:"cb"`
	St *State     `json:"st"`
	Dg string     `json:"dg"` // digest of the consensus state (raw store, balances, supply) - C20
}

type Recorder struct {
	w      *bufio.Writer
	f      *os.File
	Lines  int
	Hist   int
	Counts map[string]int
	Last   *State // the state of the line emitted last
	// when set, every line is also kept (used by the determinism check)
	Digests *[]string
}

func NewRecorder(path string) *Recorder {
	f, err := os.Create(path)
	if err != nil {
		panic(err)
	}
	return &Recorder{w: bufio.NewWriterSize(f, 1<<20), f: f, Counts: map[string]int{}}
}

func (r *Recorder) Emit(ev Ev, cb []Callback, st *State) {
	if cb == nil {
		cb = []Callback{}
	}
	b, err := json.Marshal(Line{Ev: ev, Cb: cb, St: st, Dg: st.dg})
	if err != nil {
		panic(err)
	}
	r.w.Write(b)
	r.w.WriteByte('\n')
	r.Lines++
	r.Last = st
	k := ev.Name
	if !ev.OK {
		k += "/rejected"
	}
	r.Counts[k]++
}

func (r *Recorder) Close() {
	r.w.Flush()
	r.f.Close()
}

// A history: how the chain is set up, then the operations.
type History struct {
	Reset Ev   `json:"reset"`
	Ops   []Ev `json:"ops"`
}

// ObserveAtEnd: finish every replayed history with an observation of the query paths
var ObserveAtEnd = true

var PoolNames = []string{"o1", "o2", "p1", "p2", "p3", "pz", "c1", "c2", "w1"}

func StartHistory(rec *Recorder, reset Ev) *Chain {
	p := DefaultMParams()
	if reset.RParams != nil {
		p = *reset.RParams
	}
	names := append([]string{}, PoolNames...)
	for n := range reset.RBal {
		found := false
		for _, m := range names {
			if m == n {
				found = true
			}
		}
		if !found {
			names = append(names, n)
		}
	}
	bal := map[string]int64{}
	for k, v := range reset.RBal {
		bal[k] = v
	}
	// initial registry: executed before the first logged state; owners are funded for it
	for _, op := range reset.RInit {
		if op.Name == "Bind" {
			bal[op.Signer] += op.Deposit
		}
	}
	c := NewChain(p, names, bal)
	if reset.RModSvc {
		c.RegisterTestModuleService()
	}
	for i := range reset.RInit {
		op := &reset.RInit[i]
		if op.Name == "EndBlock" {
			c.EndBlock(op.Dt)
			op.OK = true
			c.normalise(op)
			continue
		}
		if !c.Apply(op) || !op.OK {
			// (on the unchanged tree every history's set-up succeeds; a changed tree may refuse it - the history
			// then goes on from whatever state was reached, and the formulas judge the steps that follow)
			fmt.Fprintf(os.Stderr, "initial operation %s failed: %s\n", op.Name, op.Err)
		}
		c.TakeCallbacks()
	}
	reset.Name = "reset"
	reset.OK = true
	c.normalise(&reset)
	if rec != nil {
		rec.Hist++
		rec.Emit(reset, nil, c.Project())
	}
	return c
}

// Step applies one operation (a message, a keeper call, or a whole end-of-block) and logs
// the resulting event(s).  It returns the state after the step.
func Step(c *Chain, rec *Recorder, op Ev) (applied bool) {
	emitMeta := func(name string) {
		ev := Ev{Name: name, OK: true}
		c.normalise(&ev)
		if rec != nil {
			rec.Emit(ev, c.TakeCallbacks(), c.Project())
		} else {
			c.TakeCallbacks()
		}
	}
	if c.tx != nil {
		switch op.Name {
		case "TxBegin":
			return false
		case "TxEnd", "TxAbort", "TxCommit":
			if c.EndTx() {
				emitMeta("TxCommit")
			} else {
				emitMeta("TxAbort")
			}
			return true
		case "Define", "Bind", "UpdateBinding", "Disable", "Enable", "RefundDeposit", "SetWithdrawAddr", "Call", "Respond",
			"Pause", "Start", "Kill", "UpdateContext", "Withdraw", "BankSend":
			if c.tx.failed {
				return false // the transaction has failed already: nothing more of it is executed
			}
		default:
			// anything that is not a message ends the transaction first
			Step(c, rec, Ev{Name: "TxEnd"})
		}
	}
	switch op.Name {
	case "TxBegin":
		if c.Phase != "deliver" {
			return false
		}
		c.BeginTx()
		emitMeta("TxBegin")
		return true
	case "TxEnd", "TxAbort", "TxCommit":
		return false
	case "BeginEndBlock", "ExpireBatch", "Mid", "StartBatch", "reset":
		// sub-steps are produced by the real EndBlocker, never requested
		return false
	case "PrepZeroHeight":
		out := c.PrepZeroHeight()
		ev := Ev{Name: "PrepZeroHeight", OK: out.OK, Panic: out.Panic, Err: out.Err}
		c.normalise(&ev)
		if rec != nil {
			rec.Emit(ev, c.TakeCallbacks(), c.Project())
		}
		return true
	case "Restart":
		if c.Phase != "deliver" {
			return false
		}
		if !c.Prepared { // (a behaviour of the specification restarts in one step)
			Step(c, rec, Ev{Name: "PrepZeroHeight"})
		}
		out := c.Restart()
		ev := Ev{Name: "Restart", OK: out.OK, Panic: out.Panic, Err: out.Err}
		c.normalise(&ev)
		if rec != nil {
			rec.Emit(ev, c.TakeCallbacks(), c.Project())
		}
		return true
	case "Genesis":
		ev := Ev{Name: "Genesis", OK: true, Gen: c.GenesisObs()}
		c.normalise(&ev)
		if rec != nil {
			rec.Emit(ev, c.TakeCallbacks(), c.Project())
		}
		return true
	case "Obs":
		ev := Ev{Name: "Obs", OK: true, Obs: c.Observe()}
		c.normalise(&ev)
		if rec != nil {
			rec.Emit(ev, c.TakeCallbacks(), c.Project())
		}
		return true
	case "EndBlock":
		dt := op.Dt
		if dt <= 0 {
			dt = 1
		}
		emit := func(name string, id int, d int64) {
			ev := Ev{Name: name, OK: true, ID: id, Dt: d}
			if name == "StartBatch" {
				ev.EvReqs = c.EvReqs
			}
			c.normalise(&ev)
			if rec != nil {
				rec.Emit(ev, c.TakeCallbacks(), c.Project())
			} else {
				c.TakeCallbacks()
			}
		}
		c.OnSub = func(stage string, id int) {
			switch stage {
			case "begin":
				emit("BeginEndBlock", 0, 0)
			case "expire":
				emit("ExpireBatch", id, 0)
			case "mid":
				emit("Mid", 0, 0)
			case "start":
				emit("StartBatch", id, 0)
			case "end":
				emit("EndBlock", 0, dt)
			}
		}
		out := c.EndBlock(dt)
		c.OnSub = nil
		if !out.OK {
			ev := Ev{Name: "EndBlock", OK: false, Panic: out.Panic, Err: out.Err, Dt: dt}
			c.normalise(&ev)
			if rec != nil {
				rec.Emit(ev, c.TakeCallbacks(), c.Project())
			}
		}
		return true
	}
	if !c.Apply(&op) {
		if c.tx != nil {
			c.tx.failed = true // (a message that fails its stateless checks fails the transaction)
		}
		return false
	}
	if c.tx != nil && !op.OK {
		c.tx.failed = true
	}
	if rec != nil {
		rec.Emit(op, c.TakeCallbacks(), c.Project())
	} else {
		c.TakeCallbacks()
	}
	return true
}

func RunHistory(rec *Recorder, h History) *Chain {
	c := StartHistory(rec, h.Reset)
	for _, op := range h.Ops {
		Step(c, rec, op)
	}
	stopped := false
	for _, op := range h.Ops {
		stopped = (stopped || op.Name == "PrepZeroHeight") && op.Name != "Restart"
	}
	if h.Reset.Tag != "" && len(h.Ops) > 0 && h.Ops[len(h.Ops)-1].Name != "Obs" && ObserveAtEnd && !stopped {
		Step(c, rec, Ev{Name: "Obs"})
	}
	return c
}
