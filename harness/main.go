package main

import (
	"encoding/json"
	"flag"
	"fmt"
	"io/ioutil"
	"os"
)

func main() {
	if len(os.Args) < 2 {
		fmt.Fprintln(os.Stderr, "usage: drive <scripted|random|replay> [flags]")
		os.Exit(2)
	}
	cmd := os.Args[1]
	fs := flag.NewFlagSet(cmd, flag.ExitOnError)
	out := fs.String("out", "trace.ndjson", "trace file to write")
	seed := fs.Int64("seed", 1, "seed")
	n := fs.Int("n", 10, "number of histories")
	steps := fs.Int("steps", 150, "operations per history")
	in := fs.String("in", "", "input file (replay)")
	gen := fs.Bool("genesis", false, "finish every random history with zero-height preparation, export and re-import")
	rev := fs.Bool("reverse", false, "run the histories in the opposite order (determinism: nothing may carry over from one to the next)")
	fs.Parse(os.Args[2:])

	switch cmd {
	case "scripted":
		rec := NewRecorder(*out)
		hs := Scenarios()
		for i := range hs {
			if *rev {
				i = len(hs) - 1 - i
			}
			RunHistory(rec, hs[i])
		}
		rec.Close()
		report(rec)
	case "random":
		rec := NewRecorder(*out)
		for k := 0; k < *n; k++ {
			i := k
			if *rev {
				i = *n - 1 - k
			}
			g := NewGen(*seed*1000003 + int64(i))
			c := StartHistory(rec, g.Reset(fmt.Sprintf("random-%d-%d", *seed, i)))
			for s := 0; s < *steps; s++ {
				if *gen && i%2 == 0 && s == *steps*3/5 {
					// half of the histories go on after a zero-height restart
					Step(c, rec, Ev{Name: "PrepZeroHeight"})
					Step(c, rec, Ev{Name: "Genesis"})
					Step(c, rec, Ev{Name: "Restart"})
				}
				Step(c, rec, g.Next(c.Project()))
				if s%40 == 39 {
					Step(c, rec, Ev{Name: "Obs"})
				}
			}
			if *gen {
				Step(c, rec, Ev{Name: "PrepZeroHeight"})
				Step(c, rec, Ev{Name: "Genesis"})
			}
		}
		rec.Close()
		report(rec)
	case "explore":
		cfg := ExploreConfigs()[*in]
		if cfg == nil {
			fmt.Fprintln(os.Stderr, "unknown exploration", *in)
			os.Exit(2)
		}
		if *steps > 0 && *steps != 150 {
			cfg.MaxDepth = *steps
		}
		rec := NewRecorder(*out)
		res := Explore(cfg, rec, *n)
		rec.Close()
		res["lines"] = rec.Lines
		b, _ := json.Marshal(res)
		fmt.Println(string(b))
	case "keys":
		b, _ := json.Marshal(KeysRun(*out, *seed))
		fmt.Println(string(b))
	case "replay":
		b, err := ioutil.ReadFile(*in)
		if err != nil {
			fmt.Fprintln(os.Stderr, err)
			os.Exit(2)
		}
		var hs []History
		if err := json.Unmarshal(b, &hs); err != nil {
			fmt.Fprintln(os.Stderr, err)
			os.Exit(2)
		}
		rec := NewRecorder(*out)
		for i := range hs {
			if *rev {
				i = len(hs) - 1 - i
			}
			RunHistory(rec, hs[i])
		}
		rec.Close()
		report(rec)
	default:
		fmt.Fprintln(os.Stderr, "unknown command", cmd)
		os.Exit(2)
	}
}

func report(rec *Recorder) {
	b, _ := json.Marshal(map[string]interface{}{"histories": rec.Hist, "lines": rec.Lines, "counts": rec.Counts})
	fmt.Println(string(b))
}
