#!/usr/bin/env python3
"""print a markdown table of the seeded changes and which properties' checks noticed them"""
import glob, json, os
V = os.path.dirname(os.path.dirname(os.path.abspath(__file__)))
rows = []
for d in sorted(glob.glob(os.path.join(V, "seeded", "*"))):
    try:
        m = json.load(open(os.path.join(d, "meta.json")))
    except Exception:
        continue
    r = {}
    if os.path.exists(os.path.join(d, "result.json")):
        r = json.load(open(os.path.join(d, "result.json")))
    files = ",".join(os.path.basename(f) for f in (m.get("files_changed") or []))
    summ = (m.get("summary") or "").replace("|", "/").replace("\n", " ")
    summ = summ[:150] + ("…" if len(summ) > 150 else "")
    det = "yes" if r.get("detected") else ("no" if r else "not run")
    rows.append("| %s | %s | %s | %s | %s | %s |" % (os.path.basename(d), m.get("breaks_property"), files, summ, det,
                                                  " ".join(sorted(r.get("violated", {})))))
print("| id | breaks | file | change | noticed by its property's check | all properties whose check fails |")
print("|----|--------|------|--------|------|------|")
print("\n".join(rows))
n = sum(1 for r in rows if "| yes |" in r)
print("\n%d of %d seeded changes are noticed by the check of the property they were written to break." % (n, len(rows)))
