#!/usr/bin/env python3
"""mutants.py [-j N] [--out DIR] [ids...]  - judge each seeded change (seeded/<id>/patch.diff): a scratch worktree of
/repo's HEAD is created outside /repo and /verif, the change is applied there, the survey (all properties judged on one
pass over the quick-tier trace sources) is run against that worktree (VERIF_REPO), and the worktree is removed with its
build output.  Which properties' checks noticed the change is recorded in <out>/<id>/result.json (default: seeded/).
With --in-repo the change is applied to /repo itself instead (one at a time; /repo must be clean) and undone afterwards."""
import argparse, json, os, shutil, subprocess, sys, tempfile, time
from concurrent.futures import ThreadPoolExecutor

VERIF = os.path.dirname(os.path.dirname(os.path.abspath(__file__)))


def sh(cmd, **kw):
    return subprocess.run(cmd, shell=True, stdout=subprocess.PIPE, stderr=subprocess.STDOUT, text=True, **kw)


def one(mid, a):
    d = os.path.join(VERIF, a.dir, mid)
    patch = os.path.join(d, "patch.diff")
    if not os.path.exists(patch):
        return
    meta = json.load(open(os.path.join(d, "meta.json"))) if os.path.exists(os.path.join(d, "meta.json")) else {}
    if a.in_repo:
        wt = "/repo"
    else:
        wt = tempfile.mkdtemp(prefix="mut-%s-" % mid, dir="/tmp")
        os.rmdir(wt)
        r = sh("git -C /repo worktree add -q --detach %s HEAD" % wt)
        if r.returncode != 0:
            print(mid, "worktree failed", r.stdout[-300:], flush=True)
            return
    t0 = time.time()
    try:
        r = sh("git -C %s apply %s" % (wt, patch))
        if r.returncode != 0:
            print(mid, "patch does not apply:", r.stdout[-300:], flush=True)
            return
        env = dict(os.environ, VERIF_REPO=wt)
        if a.fast:
            env["VERIF_SKIP_S4"] = "1"
        out = sh("python3 %s/bin/check.py --survey --tier quick" % VERIF, cwd=VERIF, timeout=3600, env=env).stdout
    finally:
        if a.in_repo:
            sh("git -C /repo checkout -- .")
        else:
            sh("git -C /repo worktree remove --force %s" % wt)
            shutil.rmtree(wt, ignore_errors=True)
    res = {}
    for line in out.splitlines():
        if line.startswith("SURVEY "):
            res = json.loads(line[7:])
    if not res:
        res = {"errors": ["no survey output: " + out[-500:]]}
    res["wall_s"] = round(time.time() - t0)
    res["sources"] = "S1 S2 S3" if a.fast else "S1 S2 S3 S4"
    outd = os.path.join(a.out or os.path.join(VERIF, a.dir), mid)
    os.makedirs(outd, exist_ok=True)
    if a.dir == "seeded":
        target = meta.get("breaks_property") or meta.get("property")
        res["target"] = target
        res["detected"] = target in res.get("violated", {})
        print(mid, "target", target, "DETECTED" if res["detected"] else "MISSED", "violated:", sorted(res.get("violated", {})),
              "nonconf:", res.get("nonconf"), "errors:", [e[:200] for e in res.get("errors", [])], flush=True)
    else:
        res["false_alarm"] = bool(res.get("violated")) or bool(res.get("errors"))
        print(mid, "FALSE-ALARM" if res["false_alarm"] else "quiet", "violated:", sorted(res.get("violated", {})),
              "nonconf:", res.get("nonconf"), "errors:", [e[:200] for e in res.get("errors", [])], flush=True)
    json.dump(res, open(os.path.join(outd, "result.json"), "w"), indent=1)


def main():
    ap = argparse.ArgumentParser()
    ap.add_argument("-j", type=int, default=1)
    ap.add_argument("--out")
    ap.add_argument("--dir", default="seeded", help="seeded | benign")
    ap.add_argument("--in-repo", action="store_true")
    ap.add_argument("--fast", action="store_true", help="without the exhaustive searches of the implementation (S4)")
    ap.add_argument("--missed", action="store_true", help="only the changes whose result.json says not detected / is absent")
    ap.add_argument("ids", nargs="*")
    a = ap.parse_args()
    ids = a.ids or sorted(os.listdir(os.path.join(VERIF, a.dir)))
    if a.missed:
        def missed(m):
            p = os.path.join(a.out or os.path.join(VERIF, a.dir), m, "result.json")
            return not (os.path.exists(p) and json.load(open(p)).get("detected"))
        ids = [m for m in ids if missed(m)]
    if a.in_repo:
        if sh("git -C /repo status --porcelain").stdout.strip():
            print("/repo is not clean")
            sys.exit(2)
        a.j = 1
    with ThreadPoolExecutor(max_workers=a.j) as ex:
        list(ex.map(lambda m: one(m, a), ids))


if __name__ == "__main__":
    main()
