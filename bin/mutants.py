#!/usr/bin/env python3
"""mutants.py [ids...]  - apply each seeded change (seeded/<id>/patch.diff) to /repo, run the survey
(all properties judged on one pass over the trace sources), undo the change, and record which
properties' checks noticed it in seeded/<id>/result.json.  /repo must be clean."""
import json, os, subprocess, sys, time

VERIF = os.path.dirname(os.path.dirname(os.path.abspath(__file__)))
SEEDED = os.path.join(VERIF, "seeded")
REPO = os.environ.get("VERIF_REPO", "/repo")


def sh(cmd, **kw):
    return subprocess.run(cmd, shell=True, stdout=subprocess.PIPE, stderr=subprocess.STDOUT, text=True, **kw)


def main():
    ids = sys.argv[1:] or sorted(os.listdir(SEEDED))
    if sh("git -C %s status --porcelain" % REPO).stdout.strip():
        print("/repo is not clean")
        sys.exit(2)
    for mid in ids:
        d = os.path.join(SEEDED, mid)
        patch = os.path.join(d, "patch.diff")
        if not os.path.exists(patch):
            continue
        meta = json.load(open(os.path.join(d, "meta.json")))
        r = sh("git -C %s apply %s" % (REPO, patch))
        if r.returncode != 0:
            print(mid, "patch does not apply:", r.stdout[-300:])
            continue
        t0 = time.time()
        try:
            out = sh("python3 %s/bin/check.py --survey --tier quick" % VERIF, cwd=VERIF, timeout=1800).stdout
        finally:
            sh("git -C %s checkout -- ." % REPO)
        res = {}
        for line in out.splitlines():
            if line.startswith("SURVEY "):
                res = json.loads(line[7:])
        res["wall_s"] = round(time.time() - t0)
        res["target"] = (meta.get("breaks_property") or meta.get("property"))
        res["detected"] = (meta.get("breaks_property") or meta.get("property")) in res.get("violated", {})
        json.dump(res, open(os.path.join(d, "result.json"), "w"), indent=1)
        print(mid, "target", (meta.get("breaks_property") or meta.get("property")), "DETECTED" if res["detected"] else "MISSED",
              "violated:", sorted(res.get("violated", {})), "nonconf:", res.get("nonconf"), "errors:", res.get("errors"), flush=True)


if __name__ == "__main__":
    main()
