"""Per-property configuration of the checks: trace sources, model-checking configurations,
classification of events (what makes an implementation step non-trivial for a property)."""
import json, os

TRACE_PROPS = ["C01", "C02", "C03", "C04", "C05", "C06", "C07", "C08", "C09", "C10", "C11", "C12", "C13",
               "C14", "C15", "C16", "C17", "C18", "C19", "C20"]

RULE = ("Cases are implementation steps (one handler invocation or one EndBlocker sub-step of the real code, "
        "with the abstract state projected from the raw store) produced by scripted scenarios, replayed "
        "TLC behaviours and the seeded random driver; TLC evaluates the property's TLA+ formula on every step. "
        "A step is non-trivial for the property when its event class is one the property speaks about; "
        "distinct = distinct (event, outcome, branch) classes among those.")

ASSUMPTIONS = [
    "infinite gas; ante-handler fees not modelled; block time non-decreasing; parameters change only through the SetParams environment action (x/params Subspace.Update with the module's validators, as a parameter-change proposal does; proposals the validators refuse are part of the histories)",
    "only the service module, x/bank and x/auth of the repository's simapp are exercised; MockTokenKeeper (base denomination only)",
    "amounts, heights and times below 2^31 (TLC integers); discounts with at most 2, tax and slash fraction with at most 3 fractional digits, where the integer model and sdk.Dec agree exactly",
    "trusted base: TLC 1.8.0, CommunityModules Json, the Go protobuf decoders, x/bank, the harness's projection",
    "failed messages - and transactions of several messages of which one fails - are rolled back by the harness with CacheContext, as baseapp does",
]

# event classes each property speaks about (prefix match on the class label)
REL = {
    "C01": ["Respond/ok", "ExpireBatch", "StartBatch", "Withdraw/ok"],
    "C02": ["Respond/ok", "ExpireBatch/settled", "StartBatch/issued", "Withdraw/ok"],
    "C03": ["Bind/ok", "UpdateBinding/ok/dep", "Enable/ok", "RefundDeposit", "Respond/ok/bad", "ExpireBatch/settled", "PrepZeroHeight", "SetParams"],
    "C04": ["Respond/ok/bad", "ExpireBatch/settled", "RefundDeposit/ok", "SetParams"],
    "C05": ["/rej", "/ok"],
    "C06": ["StartBatch"],
    "C07": ["StartBatch/issued", "Respond/ok"],
    "C08": ["Respond", "StartBatch/issued", "ExpireBatch/settled", "SetParams"],
    "C09": ["Pause", "Start", "Kill", "UpdateContext", "ModPause", "ModStart", "ModKill", "ModUpdate", "StartBatch", "ExpireBatch", "Call/ok", "ModCreate/ok", "PrepZeroHeight", "Restart", "Respond/ok/valid/cb/react", "Respond/ok/bad/cb/react"],
    "C10": ["StartBatch", "ExpireBatch", "UpdateContext/ok", "Call/ok", "EndBlock", "Restart", "SetParams"],
    "C11": ["StartBatch", "ExpireBatch", "Start", "Pause", "Kill", "Call/ok", "EndBlock", "ModCreate/ok", "ModStart", "Restart", "SetParams"],
    "C12": ["Respond/ok", "ExpireBatch", "StartBatch"],
    "C13": ["Withdraw", "Respond/ok", "SetWithdrawAddr", "TxAbort"],
    "C14": ["Bind", "UpdateBinding", "Enable", "Respond/ok/bad", "ExpireBatch/settled", "SetParams", "PrepZeroHeight"],
    "C15": ["Define", "Bind", "UpdateBinding", "Obs", "TxAbort", "Genesis"],
    "C16": ["ExpireBatch", "Respond/ok", "StartBatch/finished", "Restart"],
    "C17": ["Obs"],
    "C18": ["StartBatch/issued", "Obs"],
    "C19": ["Genesis", "PrepZeroHeight", "Restart"],
    "C20": ["/panic", "Bind/rej", "Call/rej", "EndBlock", "TxAbort", "TxCommit"],
}

PROPS = {p: {} for p in TRACE_PROPS}


def classify(prev, line):
    """a label describing the event, its outcome and the branch the implementation took"""
    e, st = line["ev"], line["st"]
    name = e["name"]
    if name in ("reset",):
        return "reset"
    lab = name
    if name in ("BeginEndBlock", "Mid", "EndBlock"):
        return lab
    react = "/react" if any(c.get("kind") == "react" for c in line["cb"]) else ""
    if name == "ExpireBatch":
        settled = len(prev["actId"]) - len(st["actId"]) if prev else 0
        gone = len(prev["ctx"]) - len(st["ctx"]) if prev else 0
        return "%s/%s/%s%s%s" % (name, "settled" if settled > 0 else "clean", "removed" if gone else "kept",
                                 "/cb" if line["cb"] else "", react)
    if name == "StartBatch":
        issued = len(st["actId"]) - len(prev["actId"]) if prev else 0
        pc = {c["id"]: c for c in (prev or st)["ctx"]}.get(e["id"])
        nc = {c["id"]: c for c in st["ctx"]}.get(e["id"])
        if issued > 0:
            return "%s/issued/%d" % (name, min(issued, 3))
        if pc and nc and nc["batch"] > pc["batch"]:
            return name + "/skipped"
        if pc and nc and pc["state"] == "running" and nc["state"] in ("paused", "completed"):
            return name + "/paused" + ("/cb" if line["cb"] else "") + react
        if pc and not nc:
            return name + "/finished"
        return name + "/notrunning"
    if e.get("panic"):
        return lab + "/panic"
    lab += "/ok" if e["ok"] else "/rej"
    if name == "Respond":
        lab += "/" + e["kind"] + ("/cb" if line["cb"] else "") + react
    elif name in ("UpdateBinding",):
        lab += ("/dep" if e["deposit"] else "") + ("/pr" if e["hasPr"] else "") + ("/qos" if e["qos"] else "")
    elif name in ("Bind", "Enable"):
        lab += "/" + e["dshape"]
    elif name in ("Call", "ModCreate"):
        lab += ("/rep" if e["rep"] else "/once") + ("/super" if e["super"] else "")
    elif name == "Withdraw":
        lab += "/prov" if e["prov"] else "/all"
    elif name == "Obs":
        lab = "Obs"
    return lab


def obs_classes(line):
    """distinct (query, kind of answer) classes of an observation"""
    out = set()
    for q in line["ev"].get("obs", {}).get("queries", []):
        g = q["grpc"]
        kind = "err" if g == ["ERR"] else "empty" if g == [] or g == [line["ev"]["obs"]["empty"]] else "one" if len(g) == 1 else "many"
        out.add("Obs/%s/%s" % (q["q"], kind))
    return out


def scan_trace(prop, path):
    hist, counts, nontrivial = 0, {}, set()
    prev = None
    rel = REL.get(prop, [])
    with open(path) as f:
        for raw in f:
            line = json.loads(raw)
            if line["ev"]["name"] == "reset":
                hist += 1
                prev = line["st"]
                continue
            if line["ev"]["name"] == "restore":
                prev = line["st"]
                continue
            lab = classify(prev, line)
            counts[lab.split("/")[0]] = counts.get(lab.split("/")[0], 0) + 1
            if any((lab.startswith(r) if not r.startswith("/") else r in lab) for r in rel):
                nontrivial.add(lab)
            if lab == "Obs" and prop in ("C17", "C15"):
                nontrivial |= {c for c in obs_classes(line) if prop == "C17" or "/bindings/" in c}
            if line["ev"]["name"] in ("PrepZeroHeight", "Genesis") and prop == "C19":
                g = line["ev"].get("gen") or {}
                nontrivial.add("%s/ctx%d/bind%d/waddr%d/pending%d/earned%d" % (
                    line["ev"]["name"], min(g.get("nctx", len(line["st"]["ctx"])), 3), min(g.get("nbind", len(line["st"]["bind"])), 3),
                    min(g.get("nwaddr", len(line["st"]["waddr"])), 2), min(len(prev["actId"]), 2) if prev else 0,
                    min(len(prev["earned"]), 2) if prev else 0))
            prev = line["st"]
    return hist, counts, nontrivial


def samples(traces, nontrivial):
    out = []
    for t in traces[:1]:
        with open(t) as f:
            evs = []
            for i, raw in enumerate(f):
                if i > 14:
                    break
                e = json.loads(raw)["ev"]
                evs.append({k: v for k, v in e.items() if v not in ("", 0, False, [], None) and k not in ("pr", "rid") or k in ("name", "ok")})
            out.append({"history_prefix": evs})
    out.append({"nontrivial_classes": sorted(nontrivial)[:40]})
    return out


# ---------------------------------------------------------------------------------------------
# trace sources

def make_traces(prop, tier, seed, workdir, drive):
    traces, stats = [], {}
    s1 = os.path.join(workdir, "s1.ndjson")
    stats["scripted"] = drive(["scripted", "-out", s1])
    traces.append(s1)
    n, steps = (14, 160) if tier == "quick" else (120, 300)
    s3 = os.path.join(workdir, "s3.ndjson")
    stats["random"] = drive(["random", "-seed", str(seed), "-n", str(n), "-steps", str(steps), "-genesis", "-out", s3])
    traces.append(s3)
    # S4: exhaustive search of the implementation to a small depth around prepared states
    from concurrent.futures import ThreadPoolExecutor
    names = ["fresh", "inflight", "answered", "paused", "between", "lastbatch", "oneshot", "module", "reactive", "siblings", "shared",
             "params", "binding"]
    if tier == "quick":
        names = [n for n in names if n not in ("fresh", "lastbatch")]
    if os.environ.get("VERIF_SKIP_S4"):      # first pass of the seeded-change runner: the cheap sources only
        names = []
    deeper = [] if tier == "quick" else ["-steps", "5"]      # thorough: one level deeper (binding: as configured)
    with ThreadPoolExecutor(max_workers=13) as ex:
        # (two contexts in flight together, "shared", is one level shallower than the rest: 4 in the thorough tier)
        res = list(ex.map(lambda n: drive(["explore", "-in", n, "-n", "400000", "-out", os.path.join(workdir, "s4%s.ndjson" % n)]
                                          + ([] if n == "binding" else ["-steps", "3" if tier == "quick" else "4"] if n == "shared"
                                             else deeper)), names))
    stats["exhaustive_search"] = res
    traces += [os.path.join(workdir, "s4%s.ndjson" % n) for n in names]
    s2 = os.path.join(workdir, "s2.ndjson")
    stats["tlc_behaviours"] = tlc_behaviours(seed, 150 if tier == "quick" else 1500, 80, workdir, drive, s2)
    traces.append(s2)
    return traces, stats


def tlc_behaviours(seed, num, depth, workdir, drive, out):
    """S2: behaviours of the specification generated by TLC, replayed into the real code"""
    import glob, shutil, subprocess, re
    import tlaval
    d = os.path.join(workdir, "sim")
    os.makedirs(os.path.join(d, "beh"), exist_ok=True)
    spec = os.path.join(os.path.dirname(os.path.dirname(os.path.abspath(__file__))), "spec")
    for f in glob.glob(os.path.join(spec, "*.tla")) + [os.path.join(spec, "MC_sim.cfg")]:
        shutil.copy(f, d)
    jar = "/opt/veriftools/tla/tla2tools.jar:/opt/veriftools/tla/CommunityModules-deps.jar"
    cmd = ["java", "-XX:+UseParallelGC", "-Xmx4g", "-cp", jar, "tlc2.TLC", "-workers", "1", "-simulate",
           "file=beh/b,num=%d" % num, "-depth", str(depth), "-seed", str(seed), "-metadir", os.path.join(d, "meta"),
           "-config", "MC_sim.cfg", "MC_sim.tla"]
    r = subprocess.run(cmd, cwd=d, stdout=subprocess.PIPE, stderr=subprocess.STDOUT, text=True, timeout=1800)
    m = re.search(r'<<"RESET", "(.*)">>', r.stdout)
    if not m:
        raise RuntimeError("TLC simulation produced no behaviours:\n" + r.stdout[-3000:])
    reset = json.loads(bytes(m.group(1), "utf-8").decode("unicode_escape"))
    hists = []
    for i, f in enumerate(sorted(glob.glob(os.path.join(d, "beh", "b_*")))):
        evs = tlaval.behaviour_events(f)
        rs = dict(reset, tag="tlc-%d-%d" % (seed, i))
        hists.append({"reset": rs, "ops": [e for e in evs[1:]]})
    hp = os.path.join(workdir, "s2-histories.json")
    with open(hp, "w") as f:
        json.dump(hists, f)
    st = drive(["replay", "-in", hp, "-out", out])
    st["behaviours"] = len(hists)
    shutil.rmtree(d, ignore_errors=True)
    return st


# ---------------------------------------------------------------------------------------------
# model-checking configurations (the specification itself, exhaustively within bounds)

COMMON = """CONSTANTS
  Scale = 10
  FScale = 10
  Defects = {}
  ModSvc <- C_ModSvc
  Accts <- C_Accts
  Signers <- C_Signers
  Provs <- C_Provs
  Consumers <- C_Consumers
  SvcNames <- C_Svcs
  InitDefs <- C_InitDefs
  InitBinds <- C_InitBinds
  InitBal <- C_InitBal
  Params <- C_Params
  Prs <- C_Prs
  ProvSeqs <- C_ProvSeqs
  Msgs <- C_Msgs
"""

FAMILY = {
    "binding": {
        "module": "MC_binding", "extra": "  ParamAlts <- C_ParamAlts\n",
        "quick": dict(Deposits="{0, 2, 4}", QosSet="{1}", Caps="{3}", Timeouts="{1}", Freqs="{0}", Totals="{1}",
                      Dts="{2}", Thresholds="{1}", Kinds='{"valid"}', MaxHeight=3, MaxCtx=0, MaxBatch=1),
        "thorough": dict(Deposits="{0, 2, 4, 6}", QosSet="{1, 3}", Caps="{3}", Timeouts="{1}", Freqs="{0}", Totals="{1}",
                         Dts="{1, 2}", Thresholds="{1}", Kinds='{"valid"}', MaxHeight=4, MaxCtx=0, MaxBatch=1),
    },
    "lifecycle": {
        "module": "MC_lifecycle",
        "quick": dict(Deposits="{0}", QosSet="{1}", Caps="{3}", Timeouts="{1, 2}", Freqs="{0, 3}", Totals="{1, 2}",
                      Dts="{1}", Thresholds="{1, 2}", Kinds='{"valid", "bad", "none"}', MaxHeight=4, MaxCtx=1, MaxBatch=3),
        "thorough": dict(Deposits="{0}", QosSet="{1}", Caps="{3}", Timeouts="{1, 2}", Freqs="{0, 3}", Totals="{1, 2, 3}",
                         Dts="{1}", Thresholds="{1, 2}", Kinds='{"valid", "bad", "none"}', MaxHeight=8, MaxCtx=1, MaxBatch=4),
    },
    "params": {
        "module": "MC_params", "extra": "  ParamAlts <- C_ParamAlts\n",
        "quick": dict(Deposits="{0}", QosSet="{1}", Caps="{3}", Timeouts="{2, 3}", Freqs="{0}", Totals="{2}",
                      Dts="{1}", Thresholds="{1}", Kinds='{"valid", "bad"}', MaxHeight=5, MaxCtx=1, MaxBatch=2),
        "thorough": dict(Deposits="{0}", QosSet="{1}", Caps="{3}", Timeouts="{2, 3}", Freqs="{0, 3}", Totals="{2, 3}",
                         Dts="{1}", Thresholds="{1}", Kinds='{"valid", "bad"}', MaxHeight=7, MaxCtx=1, MaxBatch=3),
    },
    "react": {
        "module": "MC_react", "extra": "  Reactions <- C_Reactions\n",
        "quick": dict(Deposits="{0}", QosSet="{1}", Caps="{3}", Timeouts="{1, 2}", Freqs="{0}", Totals="{2}",
                      Dts="{1}", Thresholds="{1, 2}", Kinds='{"valid", "none"}', MaxHeight=4, MaxCtx=1, MaxBatch=2),
        "thorough": dict(Deposits="{0}", QosSet="{1}", Caps="{3}", Timeouts="{1, 2}", Freqs="{0, 3}", Totals="{2, 3}",
                         Dts="{1}", Thresholds="{1, 2}", Kinds='{"valid", "bad", "none"}', MaxHeight=7, MaxCtx=1, MaxBatch=3),
    },
    "react2": {
        "module": "MC_react2", "extra": "  Reactions <- C_Reactions\n",
        "quick": dict(Deposits="{0}", QosSet="{1}", Caps="{3}", Timeouts="{1}", Freqs="{0}", Totals="{2}",
                      Dts="{1}", Thresholds="{1}", Kinds='{"valid"}', MaxHeight=3, MaxCtx=2, MaxBatch=2),
        "thorough": dict(Deposits="{0}", QosSet="{1}", Caps="{3}", Timeouts="{1, 2}", Freqs="{0, 3}", Totals="{2}",
                         Dts="{1}", Thresholds="{1}", Kinds='{"valid", "none"}', MaxHeight=4, MaxCtx=2, MaxBatch=2),
    },
    "restart": {
        "module": "MC_restart", "extra": "  WithRestart <- C_WithRestart\n",
        "quick": dict(Deposits="{0}", QosSet="{1}", Caps="{3}", Timeouts="{1, 2}", Freqs="{0}", Totals="{1, 2}",
                      Dts="{1}", Thresholds="{1}", Kinds='{"valid"}', MaxHeight=4, MaxCtx=1, MaxBatch=3),
        "thorough": dict(Deposits="{0}", QosSet="{1}", Caps="{3}", Timeouts="{1, 2}", Freqs="{0, 3}", Totals="{1, 2}",
                         Dts="{1}", Thresholds="{1}", Kinds='{"valid", "bad"}', MaxHeight=6, MaxCtx=1, MaxBatch=3),
    },
    "collateral": {
        "module": "MC_collateral",
        "quick": dict(Deposits="{0, 2}", QosSet="{1}", Caps="{3}", Timeouts="{1}", Freqs="{0}", Totals="{2}",
                      Dts="{1, 2}", Thresholds="{1}", Kinds='{"bad", "none"}', MaxHeight=4, MaxCtx=1, MaxBatch=2),
        "thorough": dict(Deposits="{0, 2}", QosSet="{1}", Caps="{3}", Timeouts="{1, 2}", Freqs="{0}", Totals="{2, 3}",
                         Dts="{1, 2}", Thresholds="{1}", Kinds='{"valid", "bad", "none"}', MaxHeight=6, MaxCtx=1, MaxBatch=3),
    },
    "two": {
        "module": "MC_two",
        "quick": dict(Deposits="{0}", QosSet="{1}", Caps="{3}", Timeouts="{1}", Freqs="{0}", Totals="{2}",
                      Dts="{1}", Thresholds="{1}", Kinds='{"valid", "none"}', MaxHeight=3, MaxCtx=2, MaxBatch=2),
        "thorough": dict(Deposits="{0}", QosSet="{1}", Caps="{3}", Timeouts="{1, 2}", Freqs="{0}", Totals="{1, 2}",
                         Dts="{1}", Thresholds="{1}", Kinds='{"valid", "bad", "none"}', MaxHeight=4, MaxCtx=2, MaxBatch=2),
    },
    "money": {
        "module": "MC_money",
        "quick": dict(Deposits="{0}", QosSet="{1}", Caps="{1, 3}", Timeouts="{1}", Freqs="{0}", Totals="{2}",
                      Dts="{1}", Thresholds="{1}", Kinds='{"valid", "bad"}', MaxHeight=3, MaxCtx=1, MaxBatch=2),
        "thorough": dict(Deposits="{0}", QosSet="{1}", Caps="{1, 3}", Timeouts="{1, 2}", Freqs="{0}", Totals="{2, 3}",
                         Dts="{1}", Thresholds="{1}", Kinds='{"valid", "bad"}', MaxHeight=6, MaxCtx=1, MaxBatch=3),
    },
}

PROP_FAMILIES = {
    "C01": ["money", "restart", "two"], "C02": ["money", "lifecycle", "params", "two"], "C03": ["binding", "money", "collateral"],
    "C04": ["money", "lifecycle", "params", "collateral", "two"], "C05": ["binding", "lifecycle", "collateral"], "C06": ["money", "two", "react2"],
    "C07": ["money", "two"], "C08": ["lifecycle", "params", "two"],
    "C09": ["lifecycle", "restart", "react", "react2", "two"], "C10": ["lifecycle", "params", "restart", "react2", "two"],
    "C11": ["lifecycle", "params", "restart", "react", "react2", "two"], "C12": ["lifecycle", "react", "react2"],
    "C13": ["money"], "C14": ["binding", "money", "params", "collateral"], "C15": ["binding"],
    "C16": ["lifecycle", "params", "restart", "react", "react2", "two"],
    "C19": ["money"],
}

TLC_NAMES = {
    "C01": (["Inv_C01", "LedgerInv"], ["LedgerRefined"]), "C02": ([], ["P_C02"]), "C03": (["Inv_C03", "LedgerInv"], ["P_C03", "LedgerRefined"]), "C04": ([], ["P_C04"]),
    "C05": ([], ["P_C05"]), "C06": ([], ["P_C06"]), "C07": ([], ["P_C07"]), "C08": (["Inv_C08"], ["P_C08"]),
    "C09": ([], ["P_C09"]), "C10": (["Inv_C10"], ["P_C10"]), "C11": (["Inv_C11", "SchedulerInv"], ["P_C11", "SchedulerRefined"]),
    "C12": (["Inv_C12"], ["P_C12"]), "C13": (["Inv_C13"], ["P_C13"]), "C14": (["Inv_C14"], []),
    "C15": (["Inv_C15"], ["P_C15"]), "C16": (["Inv_C16"], ["P_C16"]), "C19": ([], ["P_C19"]),
}


def cfg_text(family, tier, prop):
    fam = FAMILY[family]
    t = COMMON
    for k, v in fam[tier].items():
        t += "  %s = %s\n" % (k, v)
    t += fam.get("extra", "")
    t += "  WithPrep = %s\n" % ("TRUE" if prop == "C19" else "FALSE")
    t += "SPECIFICATION MCSpec\nCONSTRAINT MCConstraint\nVIEW MCView\nCHECK_DEADLOCK FALSE\n"
    inv, prp = TLC_NAMES[prop]
    if (tier == "quick" and family not in ("money", "collateral")) or family == "two":
        # the refinement of Ledger.tla costs about 3x: in the quick tier on one family per property, and never on the
        # largest family (two contexts: 1.6e7 states in the thorough tier)
        inv = [x for x in inv if x != "LedgerInv"]
        prp = [x for x in prp if x != "LedgerRefined"]
    if family in ("react", "react2", "two") or (tier == "quick" and family != "lifecycle"):
        # Scheduler.tla: not for the families with nested keeper calls (two scheduler steps in one); quick: one family
        inv = [x for x in inv if x != "SchedulerInv"]
        prp = [x for x in prp if x != "SchedulerRefined"]
    t += "INVARIANTS TypeOK " + " ".join(inv) + "\n"
    if prp:
        t += "PROPERTIES " + " ".join(prp) + "\n"
    return t


def mc_runs(prop, tier, seed):
    runs = []
    if prop == "C18":
        for g in ("free", "bound"):
            runs.append({"module": "MC_keys", "cfg": KEYS_CFG % g, "tag": "keys-" + g, "timeout": 600})
        return runs
    for fam in PROP_FAMILIES.get(prop, []):
        runs.append({"module": FAMILY[fam]["module"], "cfg": cfg_text(fam, tier, prop),
                     "tag": "%s-%s" % (fam, tier), "timeout": 600 if tier == "quick" else 6000})
    return runs


KEYS_CFG = """CONSTANTS
  AddrLens = {2}
  Group = "%s"
INIT Init
NEXT Next
INVARIANT KeysOK
"""


def simple_tlc(module, cfg, workdir, tag, files=()):
    """run a small TLC job (KeysTrace, Replicas); returns its output"""
    import glob, shutil, subprocess
    d = os.path.join(workdir, "x-" + tag)
    os.makedirs(d, exist_ok=True)
    spec = os.path.join(os.path.dirname(os.path.dirname(os.path.abspath(__file__))), "spec")
    for f in glob.glob(os.path.join(spec, "*.tla")):
        shutil.copy(f, d)
    with open(os.path.join(d, "X.cfg"), "w") as f:
        f.write(cfg)
    jar = "/opt/veriftools/tla/tla2tools.jar:/opt/veriftools/tla/CommunityModules-deps.jar"
    cmd = ["java", "-XX:+UseParallelGC", "-Xmx4g", "-Xss64m", "-cp", jar, "tlc2.TLC", "-workers", "1",
           "-noGenerateSpecTE", "-metadir", os.path.join(d, "meta"), "-config", "X.cfg", module + ".tla"]
    r = subprocess.run(cmd, cwd=d, stdout=subprocess.PIPE, stderr=subprocess.STDOUT, text=True, timeout=3000)
    shutil.rmtree(d, ignore_errors=True)
    return r.stdout


def apalache_inductive(workdir, module, cinit, init, indinit, nxt, inv):
    """Apalache: `inv` is an inductive invariant of the abstract specification `module` (which Service.tla refines -
    checked by TLC on the bounded families), for unbounded integers: Init => Inv and Inv /\\ Next => Inv'"""
    import shutil, subprocess, time
    spec = os.path.join(os.path.dirname(os.path.dirname(os.path.abspath(__file__))), "spec")
    d = os.path.join(workdir, "apalache-" + module)
    os.makedirs(d, exist_ok=True)
    shutil.copy(os.path.join(spec, module + ".tla"), d)
    res = []
    for name, args in (("init", ["--init=" + init, "--length=0"]), ("step", ["--init=" + indinit, "--length=1"])):
        t0 = time.time()
        try:
            r = subprocess.run(["apalache-mc", "check", "--cinit=" + cinit, "--next=" + nxt, "--inv=" + inv,
                                "--out-dir=" + os.path.join(d, "out"), "--run-dir=" + os.path.join(d, "run-" + name)] + args
                               + [module + ".tla"], cwd=d, stdout=subprocess.PIPE, stderr=subprocess.STDOUT, text=True, timeout=900)
            out = r.stdout
        except (subprocess.TimeoutExpired, FileNotFoundError) as e:
            raise RuntimeError("apalache did not finish on %s.tla (%s): %s" % (module, name, e))
        if "The outcome is: NoError" not in out:
            raise RuntimeError("%s.tla: %s is not inductive (%s) - a defect of the specification:\n%s"
                               % (module, inv, name, out[-3000:]))
        res.append({"module": module, "obligation": name, "outcome": "NoError", "wall_s": round(time.time() - t0, 1)})
    shutil.rmtree(d, ignore_errors=True)
    return res


def ledger_inductive(workdir):
    return apalache_inductive(workdir, "Ledger", "ConstInit", "LInit", "IndInit", "LNext", "IndInv")


def scheduler_inductive(workdir):
    return apalache_inductive(workdir, "Scheduler", "SConstInit", "SInit", "SIndInit", "SNext", "SchedInv")


def extra_checks(prop, tier, seed, workdir, drive, build=None):
    import re, shutil
    verif = os.path.dirname(os.path.dirname(os.path.abspath(__file__)))
    if prop == "C11":
        return {"ledger_inductive_invariant": scheduler_inductive(workdir),
                "rule": "Scheduler.tla (contexts, their lifecycle state and cadence terms, their pending event in either queue) is "
                        "refined by Service.tla (TLC, PROPERTY SchedulerRefined on the families without nested keeper calls) and "
                        "C11's structural invariant is inductive there (Apalache, unbounded heights, 3 contexts)."}
    if prop in ("C01", "C03"):
        return {"ledger_inductive_invariant": ledger_inductive(workdir),
                "rule": "Ledger.tla (escrow backing, custody of deposits, no coin created) is refined by Service.tla "
                        "(TLC, PROPERTY LedgerRefined on the bounded configurations) and its laws are an inductive invariant "
                        "(Apalache, unbounded amounts, 3 accounts / 3 requests / 2 bindings)."}
    if prop == "C18":
        kf = os.path.join(workdir, "keys.ndjson")
        st = drive(["keys", "-seed", str(seed), "-out", kf])
        out = simple_tlc("KeysTrace", 'CONSTANTS\n  TraceFile = "%s"\nSPECIFICATION Spec\nCHECK_DEADLOCK FALSE\n' % kf,
                         workdir, "keys")
        m = re.search(r'<<"END", (\d+)>>', out)
        if not m or int(m.group(1)) != st["lines"]:
            raise RuntimeError("KeysTrace did not consume the key log:\n" + out[-3000:])
        bad = re.findall(r'<<"KEYVIOL", (\d+), "(\w+)">>', out)
        res = {"evaluations": st["lines"], "distinct_nontrivial": len(st["functions"]),
               "rule": "Key layout: every exported key builder, scan prefix and identifier function of types/keys.go and "
                       "types/invocation.go is called on enumerated and seeded-random inputs and TLC compares the bytes with "
                       "Keys.tla (distinct = functions bound).",
               "key_functions": st["functions"], "samples": [{"key_functions_bound": sorted(st["functions"])}]}
        if bad:
            keep = os.path.join(verif, "replays", "C18-keys-%d.ndjson" % seed)
            shutil.copy(kf, keep)
            res["violations"] = [({"keys_log": keep, "lines": bad[:10]}, {"name": "keys"})]
        return res
    if prop == "C20":
        # replica A = the traces just validated; replicas B, C = the same sources executed again by
        # separate processes (scripted scenarios, the random histories, the replayed TLC behaviours)
        tier_n, tier_steps = (14, 160) if tier == "quick" else (120, 300)
        regen = {"s1.ndjson": ["scripted"],
                 "s3.ndjson": ["random", "-seed", str(seed), "-n", str(tier_n), "-steps", str(tier_steps), "-genesis"],
                 "s2.ndjson": ["replay", "-in", os.path.join(workdir, "s2-histories.json")]}
        merged = os.path.join(workdir, "replicas.ndjson")
        from concurrent.futures import ThreadPoolExecutor
        # replica C executes the histories of each source in the opposite order: nothing (a package-level
        # cache, a counter) may carry over from one history to the next within a process
        jobs = [(r, name, args + (["-reverse"] if r == "C" else [])) for r in ("B", "C") for name, args in regen.items()]
        with ThreadPoolExecutor(max_workers=6) as ex:
            list(ex.map(lambda j: drive(j[2] + ["-out", os.path.join(workdir, "det-%s-%s" % (j[0], j[1]))]), jobs))
        logs = {}
        for r in ("A", "B", "C"):
            logs[r] = []
            for name in regen:
                src = os.path.join(workdir, name if r == "A" else "det-%s-%s" % (r, name))
                hists = []
                for line in open(src):
                    d = json.loads(line)
                    if d["ev"]["name"] == "reset":
                        hists.append([])
                    hists[-1].append((d["ev"]["name"] + ("" if d["ev"]["ok"] else "/rejected"), d["dg"]))
                if r == "C":
                    hists.reverse()
                for h in hists:
                    logs[r].extend(h)
        n = max(len(v) for v in logs.values())
        with open(merged, "w") as out:
            for k in range(n):
                get = lambda r, i: logs[r][k][i] if k < len(logs[r]) else "END"
                out.write(json.dumps({"k": k + 1, "op": {r: get(r, 0) for r in logs}, "dg": {r: get(r, 1) for r in logs}}) + "\n")
        o = simple_tlc("Replicas", 'CONSTANTS\n  TraceFile = "%s"\nSPECIFICATION Spec\nINVARIANT Deterministic\nCHECK_DEADLOCK FALSE\n' % merged,
                       workdir, "replicas")
        m = re.search(r'<<"END", (\d+)>>', o)
        if "is violated" not in o and (not m or int(m.group(1)) != n):
            raise RuntimeError("Replicas did not consume the merged log:\n" + o[-3000:])
        res = {"evaluations": 3 * n, "distinct_nontrivial": 3,
               "rule": "Determinism: every history of every source executed by three separate processes (the third in the opposite order of histories); TLC checks on the merged "
                       "log (Replicas.tla) that equal applied prefixes give equal digests of the raw store, balances and supply.",
               "replicas": 3, "samples": [{"replica_log_lines": n}]}
        if "is violated" in o:
            keep = os.path.join(verif, "replays", "C20-replicas-%d.ndjson" % seed)
            shutil.copy(merged, keep)
            res["violations"] = [({"replicas_log": keep}, {"name": "replicas"})]
        return res
    return {}
