#!/usr/bin/env python3
"""benign.py [ids...] - apply each property-preserving change (benign/<id>/patch.diff) to /repo, run the
survey and undo it: no property's check may raise an alarm.  Results in benign/<id>/result.json."""
import json, os, subprocess, sys, time

VERIF = os.path.dirname(os.path.dirname(os.path.abspath(__file__)))
REPO = os.environ.get("VERIF_REPO", "/repo")
DIR = os.path.join(VERIF, "benign")


def sh(cmd, **kw):
    return subprocess.run(cmd, shell=True, stdout=subprocess.PIPE, stderr=subprocess.STDOUT, text=True, **kw)


def main():
    ids = sys.argv[1:] or sorted(os.listdir(DIR))
    if sh("git -C %s status --porcelain" % REPO).stdout.strip():
        print("/repo is not clean")
        sys.exit(2)
    for mid in ids:
        patch = os.path.join(DIR, mid, "patch.diff")
        if not os.path.exists(patch):
            continue
        r = sh("git -C %s apply %s" % (REPO, patch))
        if r.returncode != 0:
            print(mid, "patch does not apply:", r.stdout[-300:])
            continue
        t0 = time.time()
        try:
            out = sh("python3 %s/bin/check.py --survey --tier quick" % VERIF, cwd=VERIF, timeout=2400).stdout
        finally:
            sh("git -C %s checkout -- ." % REPO)
        res = {}
        for line in out.splitlines():
            if line.startswith("SURVEY "):
                res = json.loads(line[7:])
        res["wall_s"] = round(time.time() - t0)
        res["false_alarm"] = bool(res.get("violated")) or bool(res.get("errors"))
        json.dump(res, open(os.path.join(DIR, mid, "result.json"), "w"), indent=1)
        print(mid, "FALSE-ALARM" if res["false_alarm"] else "quiet", "violated:", sorted(res.get("violated", {})),
              "nonconf:", res.get("nonconf"), "errors:", [e[:200] for e in res.get("errors", [])], flush=True)


if __name__ == "__main__":
    main()
