#!/usr/bin/env python3
"""benign.py [-j N] [ids...] - judge each property-preserving change (benign/<id>/patch.diff) in a scratch worktree:
no property's check may raise an alarm.  Results in benign/<id>/result.json.  (mutants.py --dir benign)"""
import os, sys
sys.argv = [sys.argv[0], "--dir", "benign"] + sys.argv[1:]
sys.path.insert(0, os.path.dirname(os.path.abspath(__file__)))
import mutants
mutants.main()
