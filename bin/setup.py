#!/usr/bin/env python3
"""Build the framework from files on disk only: the Go harness (against /repo) and a parse of the specs."""
import os, subprocess, sys
sys.path.insert(0, os.path.dirname(os.path.abspath(__file__)))
import check
try:
    check.build_harness()
    print("harness built")
except check.MachineryError as e:
    print(e)
    sys.exit(1)
