#!/usr/bin/env python3
"""confirm_mutant.py <agent-out-dir> <seeded-id>
Confirm, in a scratch worktree of /repo outside /repo and /verif, that a proposed change
 (a) applies, compiles and passes the existing test suite,
 (b) makes its demonstration test fail,
 (c) whose demonstration passes on the unchanged tree,
then keep it as /verif/seeded/<seeded-id>/ (patch.diff, demo_test.go, meta.json)."""
import json, os, shutil, subprocess, sys, tempfile

ENV = dict(os.environ, GOFLAGS="-mod=mod", GOPROXY="off", GOSUMDB="off", GOTOOLCHAIN="local")


def sh(cmd, cwd):
    r = subprocess.run(cmd, shell=True, cwd=cwd, env=ENV, stdout=subprocess.PIPE, stderr=subprocess.STDOUT, text=True)
    return r.returncode, r.stdout


def main():
    src, sid = sys.argv[1], sys.argv[2]
    meta = json.load(open(os.path.join(src, "meta.json")))
    wt = tempfile.mkdtemp(prefix="mutv-", dir="/tmp")
    os.rmdir(wt)
    rc, out = sh("git -C /repo worktree add -q --detach %s HEAD" % wt, "/")
    assert rc == 0, out
    ran = []
    try:
        rc, out = sh("git apply %s" % os.path.join(src, "patch.diff"), wt)
        if rc != 0:
            print(sid, "REJECT patch does not apply", out[-300:]); return 1
        rc, out = sh("go build ./... && go build -tags verif ./... && go test -vet=off -count=1 ./...", wt)
        ran.append("go build ./... && go build -tags verif ./... && go test -vet=off -count=1 ./...  (with patch) -> rc %d" % rc)
        if rc != 0:
            print(sid, "REJECT does not build or existing tests fail with the patch", out[-600:]); return 1
        dest = meta.get("demo_copy_to", "keeper/zz_demo_test.go")
        shutil.copy(os.path.join(src, "demo_test.go"), os.path.join(wt, dest))
        run = meta.get("demo_run") or "go test -vet=off -count=1 ./keeper/"
        rc_with, out_with = sh(run, wt)
        ran.append("%s  (with patch) -> rc %d" % (run, rc_with))
        sh("git apply -R %s" % os.path.join(src, "patch.diff"), wt)
        rc_without, out_without = sh(run, wt)
        ran.append("%s  (without patch) -> rc %d" % (run, rc_without))
        if rc_with == 0 or "FAIL" not in out_with:
            print(sid, "REJECT demo does not fail with the patch"); return 1
        if rc_without != 0:
            print(sid, "REJECT demo does not pass without the patch", out_without[-600:]); return 1
        d = os.path.join("/verif/seeded", sid)
        os.makedirs(d, exist_ok=True)
        shutil.copy(os.path.join(src, "patch.diff"), d)
        shutil.copy(os.path.join(src, "demo_test.go"), os.path.join(d, "demo_test.go.txt"))
        fail_line = [l for l in out_with.splitlines() if "FAIL" in l or "Error:" in l or "expected" in l][:4]
        m = {"breaks_property": meta.get("property"), "summary": meta.get("summary"), "needs_to_manifest": meta.get("needs"),
             "files_changed": meta.get("files_changed"), "demo_copy_to": dest, "demo_run": run,
             "confirmed_in_scratch_worktree": ran, "demo_failure_excerpt": fail_line,
             "source": "independent sub-agent given only the property text"}
        json.dump(m, open(os.path.join(d, "meta.json"), "w"), indent=1)
        print(sid, "KEPT", meta.get("property"), (meta.get("summary") or "")[:100])
        return 0
    finally:
        sh("git -C /repo worktree remove --force %s" % wt, "/")
        shutil.rmtree(wt, ignore_errors=True)


if __name__ == "__main__":
    sys.exit(main())
