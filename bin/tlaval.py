"""A small parser for TLA+ values as TLC prints them (records, sequences, sets, functions,
strings, integers, booleans) - used to read the `ev` variable out of simulated behaviours."""
import re

TOK = re.compile(r'\s*(\|->|:>|@@|<<|>>|\[|\]|\{|\}|\(|\)|,|"(?:[^"\\]|\\.)*"|-?\d+|[A-Za-z_][A-Za-z0-9_]*)')


def tokenize(s):
    pos, out = 0, []
    while pos < len(s):
        m = TOK.match(s, pos)
        if not m:
            if s[pos:].strip() == "":
                break
            raise ValueError("cannot tokenize at %r" % s[pos:pos + 40])
        out.append(m.group(1))
        pos = m.end()
    return out


class P:
    def __init__(self, toks):
        self.t, self.i = toks, 0

    def peek(self):
        return self.t[self.i] if self.i < len(self.t) else None

    def eat(self, x=None):
        v = self.t[self.i]
        if x is not None and v != x:
            raise ValueError("expected %s got %s" % (x, v))
        self.i += 1
        return v

    def value(self):
        t = self.peek()
        if t == "[":
            self.eat()
            rec = {}
            if self.peek() == "]":
                self.eat()
                return rec
            while True:
                k = self.eat()
                self.eat("|->")
                rec[k] = self.value()
                if self.peek() == ",":
                    self.eat()
                    continue
                self.eat("]")
                return rec
        if t == "<<":
            self.eat()
            seq = []
            while self.peek() != ">>":
                seq.append(self.value())
                if self.peek() == ",":
                    self.eat()
            self.eat(">>")
            return seq
        if t == "{":
            self.eat()
            seq = []
            while self.peek() != "}":
                seq.append(self.value())
                if self.peek() == ",":
                    self.eat()
            self.eat("}")
            return seq
        if t == "(":
            self.eat()
            f = []
            while True:
                k = self.value()
                self.eat(":>")
                v = self.value()
                f.append([k, v])
                if self.peek() == "@@":
                    self.eat()
                    continue
                self.eat(")")
                return f
        self.eat()
        if t == "TRUE":
            return True
        if t == "FALSE":
            return False
        if t.startswith('"'):
            return bytes(t[1:-1], "utf-8").decode("unicode_escape")
        if re.match(r"-?\d+$", t):
            return int(t)
        return t


def parse(s):
    return P(tokenize(s)).value()


def behaviour_events(path):
    """the sequence of `ev` values of a behaviour file written by tlc -simulate file=..."""
    evs, cur = [], None
    for line in open(path):
        if line.startswith("/\\ ev = "):
            cur = line[len("/\\ ev = "):]
        elif cur is not None and (line.startswith("/\\ ") or line.startswith("\\*") or line.startswith("STATE_") or line.strip() == "" or line.startswith("====")):
            evs.append(parse(cur))
            cur = None
        elif cur is not None:
            cur += line
    if cur is not None:
        evs.append(parse(cur))
    return evs
