#!/usr/bin/env python3
"""mc_measure.py <family> <tier> [prop]  - run one MC_* configuration and print its size (calibration)"""
import json, os, shutil, sys, time
sys.path.insert(0, os.path.dirname(os.path.abspath(__file__)))
import check, props

fam, tier = sys.argv[1], sys.argv[2]
prop = sys.argv[3] if len(sys.argv) > 3 else {"binding": "C15", "lifecycle": "C09", "money": "C02", "params": "C10", "restart": "C10", "react": "C09", "react2": "C09", "collateral": "C04", "two": "C02"}[fam]
work = os.path.join(check.VERIF, "work", "measure-%d" % os.getpid())
os.makedirs(work, exist_ok=True)
try:
    t0 = time.time()
    r = check.tlc_mc(props.FAMILY[fam]["module"], props.cfg_text(fam, tier, prop), work, "%s-%s" % (fam, tier), 6 * 3600)
    print(json.dumps(r))
except check.MachineryError as e:
    print("ERROR", str(e)[-2000:])
finally:
    shutil.rmtree(work, ignore_errors=True)
