#!/usr/bin/env python3
"""tv.py <trace.ndjson> [Cxx ...] - validate one trace file with ServiceTrace and print, per failing line,
the history tag, the event and the violated properties / non-conformance (a development aid)."""
import json, os, shutil, sys
sys.path.insert(0, os.path.dirname(os.path.abspath(__file__)))
import check, props

trace = os.path.abspath(sys.argv[1])
ids = set(sys.argv[2:]) or set(props.TRACE_PROPS)
work = os.path.join(check.VERIF, "work", "tv-%d" % os.getpid())
os.makedirs(work, exist_ok=True)
try:
    res = check.validate([trace], ids, work)
    for chunk, viol, nc, n in res:
        lines = [json.loads(l) for l in open(chunk)]
        tag = {}
        cur = ""
        for i, ln in enumerate(lines, 1):
            if ln["ev"]["name"] == "reset":
                cur = ln["ev"].get("tag", "")
            tag[i] = cur
        for lineno, p in viol:
            e = lines[lineno - 1]["ev"]
            print("VIOL", tag[lineno], lineno, e["name"], e.get("id", ""), sorted(p))
        for lineno, name in nc:
            e = lines[lineno - 1]["ev"]
            print("NONCONF", tag[lineno], lineno, name, e.get("id", ""), "ok" if e.get("ok") else "rej", e.get("err", "")[:80])
    print("lines", sum(r[3] for r in res))
finally:
    shutil.rmtree(work, ignore_errors=True)
