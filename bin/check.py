#!/usr/bin/env python3
"""check.py Cxx --tier quick|thorough   decide one property on /repo's current working tree
   check.py --replay <file>              re-execute a recorded history and judge it

Exit 0: the property held on everything explored.  Exit 1 + "VIOLATION property=<id> replay=<path>":
a violation of the property was observed on the real code (and reproduced).  Exit 2: the machinery
itself failed (build error, TLC error, time-out) - never a verdict.
"""
import argparse, glob, json, os, re, shutil, subprocess, sys, time
from concurrent.futures import ThreadPoolExecutor

VERIF = os.path.dirname(os.path.dirname(os.path.abspath(__file__)))
sys.path.insert(0, os.path.join(VERIF, "bin"))
import props  # noqa: E402

SPEC = os.path.join(VERIF, "spec")
HARNESS = os.path.join(VERIF, "harness")
BUILD = os.path.join(VERIF, "build")
JAR = "/opt/veriftools/tla/tla2tools.jar:/opt/veriftools/tla/CommunityModules-deps.jar"
GOENV = dict(os.environ, GOFLAGS="-mod=mod", GOPROXY="off", GOSUMDB="off", GOTOOLCHAIN="local")


class MachineryError(Exception):
    pass


def log(*a):
    print(*a, flush=True)


def sh(cmd, cwd=None, env=None, timeout=None):
    try:
        r = subprocess.run(cmd, cwd=cwd, env=env, timeout=timeout, stdout=subprocess.PIPE,
                           stderr=subprocess.STDOUT, text=True)
    except subprocess.TimeoutExpired as e:
        raise MachineryError("timeout: %s" % " ".join(cmd)) from e
    return r.returncode, r.stdout


def build_harness():
    """build the driver against the repository under test: /repo, or $VERIF_REPO (a scratch worktree, used by the
    runners of the seeded / benign changes so that several can be judged at once without touching /repo)"""
    global BUILD
    repo = os.path.abspath(os.environ.get("VERIF_REPO", "/repo"))
    src = HARNESS
    if repo != "/repo":
        BUILD = os.path.join(VERIF, "work", "build-%d" % os.getpid())
        src = os.path.join(BUILD, "src")
        shutil.rmtree(BUILD, ignore_errors=True)
        os.makedirs(src)
        for f in os.listdir(HARNESS):
            if f.endswith(".go") or f == "go.mod":
                shutil.copy(os.path.join(HARNESS, f), src)
        gm = open(os.path.join(src, "go.mod")).read().replace("=> /repo", "=> " + repo)
        open(os.path.join(src, "go.mod"), "w").write(gm)
    os.makedirs(BUILD, exist_ok=True)
    shutil.copy(repo + "/go.sum", os.path.join(src, "go.sum"))
    rc, out = sh(["go", "build", "-tags", "verif", "-o", os.path.join(BUILD, "drive"), "."], cwd=src,
                 env=GOENV, timeout=1200)
    if rc != 0:
        raise MachineryError("harness does not build against %s:\n" % repo + out[-3000:])
    return os.path.join(BUILD, "drive")


def drive(args, timeout=3600):
    rc, out = sh([os.path.join(BUILD, "drive")] + args, cwd=BUILD, timeout=timeout)
    if rc != 0:
        raise MachineryError("driver failed: %s\n%s" % (" ".join(args), out[-3000:]))
    for line in reversed(out.strip().splitlines()):
        if line.startswith("{"):
            return json.loads(line)
    return {}


# ---------------------------------------------------------------------------------------------
# trace validation

def split_trace(path, outdir, prefix, max_lines=2500):
    """split an ndjson trace into chunks at history boundaries"""
    chunks, cur, n = [], None, 0
    idx = 0
    with open(path) as f:
        for line in f:
            is_reset = line.startswith('{"ev":{"name":"reset"') or line.startswith('{"ev":{"name":"restore"')
            if cur is None or (is_reset and n >= max_lines):
                if cur:
                    cur.close()
                idx += 1
                p = os.path.join(outdir, "%s-%03d.ndjson" % (prefix, idx))
                cur = open(p, "w")
                chunks.append(p)
                n = 0
            cur.write(line)
            n += 1
    if cur:
        cur.close()
    return chunks


def tlc_trace(chunk, check_ids, workdir):
    """run the trace specification on one chunk; returns (viol, nonconf, nlines)"""
    name = os.path.basename(chunk)[:-7]
    d = os.path.join(workdir, "tv-" + name)
    os.makedirs(d, exist_ok=True)
    for f in ("Service.tla", "ServiceProps.tla", "ServiceTrace.tla", "Observe.tla"):
        if os.path.exists(os.path.join(SPEC, f)):
            shutil.copy(os.path.join(SPEC, f), d)
    with open(os.path.join(d, "T.cfg"), "w") as f:
        f.write('CONSTANTS\n  Scale = 100\n  FScale = 1000\n  Defects = {}\n  ModSvc <- NoModSvc\n')
        f.write('  TraceFile = "%s"\n' % chunk)
        f.write('  Check = {%s}\n' % ",".join('"%s"' % c for c in sorted(check_ids)))
        f.write('SPECIFICATION TraceSpec\nCHECK_DEADLOCK FALSE\n')
    nlines = sum(1 for _ in open(chunk))
    cmd = ["java", "-XX:+UseParallelGC", "-Xmx3g", "-Xss64m", "-cp", JAR, "tlc2.TLC", "-workers", "1",
           "-noGenerateSpecTE", "-metadir", os.path.join(d, "meta"), "-config", "T.cfg", "ServiceTrace.tla"]
    rc, out = sh(cmd, cwd=d, timeout=3600)
    viol, nonconf, end = [], [], None
    for line in out.splitlines():
        m = re.match(r'<<"VIOL", (\d+), \{(.*)\}>>', line)
        if m:
            viol.append((int(m.group(1)), set(re.findall(r'"(C\d+)"', m.group(2)))))
            continue
        m = re.match(r'<<"NONCONF", (\d+), "(\w+)">>', line)
        if m:
            nonconf.append((int(m.group(1)), m.group(2)))
            continue
        m = re.match(r'<<"END", (\d+)>>', line)
        if m:
            end = int(m.group(1))
    if end != nlines and nlines > 1:
        raise MachineryError("TLC did not consume the whole trace %s (%s of %d lines)\n%s"
                             % (chunk, end, nlines, out[-4000:]))
    shutil.rmtree(d, ignore_errors=True)
    return viol, nonconf, nlines


def validate(trace_files, check_ids, workdir, jobs=8):
    """returns list of (chunk, viol, nonconf, nlines)"""
    chunks = []
    for i, t in enumerate(trace_files):
        chunks += split_trace(t, workdir, "c%02d" % i)
    with ThreadPoolExecutor(max_workers=jobs) as ex:
        res = list(ex.map(lambda c: (c,) + tlc_trace(c, check_ids, workdir), chunks))
    return res


def history_prefix(chunk, lineno):
    """the history (reset + operations) that ends at line `lineno` of the chunk"""
    lines = []
    with open(chunk) as f:
        for i, line in enumerate(f, 1):
            if i > lineno:
                break
            lines.append(json.loads(line))
    start = max(i for i, ln in enumerate(lines) if ln["ev"]["name"] in ("reset", "restore"))
    evs = [ln["ev"] for ln in lines[start:]]
    if evs[0]["name"] == "restore":
        # exhaustive search (S4): the restored node is reached by the recorded path from the file's initial state
        reset = first_reset(chunk)
        return {"reset": reset, "ops": list(evs[0].get("path") or []) + evs[1:]}, lines[start:]
    return {"reset": evs[0], "ops": evs[1:]}, lines[start:]


def first_reset(chunk):
    """the reset line of the trace file a chunk was cut from (chunks of one file share their prefix)"""
    d, name = os.path.split(chunk)
    for f in sorted(os.listdir(d)):
        if f.startswith(name.split("-")[0] + "-") and f.endswith(".ndjson"):
            with open(os.path.join(d, f)) as fh:
                ev = json.loads(fh.readline())["ev"]
            if ev["name"] == "reset":
                return ev
    raise MachineryError("no reset line found for " + chunk)


# ---------------------------------------------------------------------------------------------
# model checking

def tlc_mc(module, cfg_text, workdir, tag, timeout, simulate=None):
    d = os.path.join(workdir, "mc-" + tag)
    os.makedirs(d, exist_ok=True)
    for f in glob.glob(os.path.join(SPEC, "*.tla")):
        shutil.copy(f, d)
    with open(os.path.join(d, "M.cfg"), "w") as f:
        f.write(cfg_text)
    cmd = ["java", "-XX:+UseParallelGC", "-Xmx12g", "-Xss64m", "-cp", JAR, "tlc2.TLC", "-workers", "16",
           "-noGenerateSpecTE", "-metadir", os.path.join(d, "meta"), "-config", "M.cfg"]
    if simulate:
        cmd += simulate
    cmd += [module + ".tla"]
    t0 = time.time()
    try:
        rc, out = sh(cmd, cwd=d, timeout=timeout)
    except MachineryError:
        if simulate:
            rc, out = 0, ""
        else:
            raise
    res = {"config": tag, "module": module, "wall_s": round(time.time() - t0, 1)}
    m = re.search(r"(\d+) states generated, (\d+) distinct states found, (\d+) states left", out)
    if m:
        res.update(generated=int(m.group(1)), distinct=int(m.group(2)), left=int(m.group(3)))
    m = re.search(r"depth of the complete state graph search is (\d+)", out)
    if m:
        res["depth"] = int(m.group(1))
    res["complete"] = "Model checking completed. No error has been found." in out
    if "is violated" in out or ("Error:" in out and not simulate):
        raise MachineryError("the specification itself fails configuration %s (a defect of the machinery, "
                             "not of the code):\n%s" % (tag, out[-6000:]))
    shutil.rmtree(d, ignore_errors=True)
    return res


# ---------------------------------------------------------------------------------------------

def load_known():
    p = os.path.join(VERIF, "known_findings.json")
    if os.path.exists(p):
        return json.load(open(p))
    return {"findings": [], "fixed": []}


def _names(ev):
    out = [ev.get("signer", ""), ev.get("prov", ""), ev.get("addr", ""), ev.get("to", "")] + list(ev.get("provs") or [])
    return [n for n in out if n]


PREDICATES = {
    # D8: some address in the history is not 20 bytes long (the harness names them x+ / x-)
    "non20_address": lambda hist: any(n.endswith("+") or n.endswith("-") for e in hist["ops"] for n in _names(e)),
    # D11: a call with a repeated frequency of 2^64-1
    "huge_frequency": lambda hist: any(e.get("freqhuge") for e in hist["ops"]),
    # D14: a module that starts a context from inside its state callback
    "state_callback_start": lambda hist: any(e.get("name") == "ModCreate" and e.get("rstate") == "start" for e in hist["ops"]),
    # D9: a call naming the registered module service
    "module_service_call": lambda hist: bool(hist["reset"].get("modsvc")) and any(
        e.get("name") == "Call" and e.get("svc") == "msvc" for e in hist["ops"]),
}


def matches_finding(f, prop, hist):
    """a recorded finding explains a violation of `prop` when the failing history has the finding's
    signature and the failing step is one of the kinds of step at which the finding shows for that property"""
    if prop not in f["properties"]:
        return False
    pred = PREDICATES.get(f.get("signature", {}).get("predicate"))
    if not (pred and pred(hist)):
        return False
    at = f.get("signature", {}).get("at", {}).get(prop)
    last = hist["ops"][-1]["name"] if hist["ops"] else "reset"
    return at is None or last in at


def run_check(prop, tier, seed):
    t0 = time.time()
    spec = props.PROPS[prop]
    workdir = os.path.join(VERIF, "work", "%s-%s-%d" % (prop, tier, os.getpid()))
    shutil.rmtree(workdir, ignore_errors=True)
    os.makedirs(workdir)
    os.makedirs(os.path.join(VERIF, "evidence"), exist_ok=True)
    os.makedirs(os.path.join(VERIF, "replays"), exist_ok=True)
    try:
        build_harness()
        ev = {"property_id": prop, "tier": tier, "seed": seed, "level": "model_checking"}
        cov = {"samples": []}
        violations, known_hits = [], []

        # ---- the specification itself, exhaustively within bounds: runs beside the trace pipeline
        mc_pool = ThreadPoolExecutor(max_workers=1)
        mc_future = mc_pool.submit(lambda: [tlc_mc(m["module"], m["cfg"], workdir, m["tag"], m["timeout"], m.get("simulate"))
                                            for m in props.mc_runs(prop, tier, seed)])

        # ---- implementation traces
        traces, src_stats = props.make_traces(prop, tier, seed, workdir, drive)
        results = validate(traces, {prop}, workdir)
        nlines = sum(r[3] for r in results)
        nonconf = sum(len(r[2]) for r in results)
        hist_count = 0
        counts, nontrivial = {}, set()
        for t in traces:
            h, c, nt = props.scan_trace(prop, t)
            hist_count += h
            for k, v in c.items():
                counts[k] = counts.get(k, 0) + v
            nontrivial |= nt
        known = load_known()
        for chunk, viol, nc, _ in results:
            for lineno, ids in viol:
                if prop not in ids:
                    continue
                hist, lines = history_prefix(chunk, lineno)
                hit = None
                for f in known.get("findings", []):
                    if matches_finding(f, prop, hist):
                        hit = f
                if hit:
                    known_hits.append(hit["id"])
                    continue
                violations.append((hist, lines[-1]["ev"]))
            for lineno, name in nc[:3]:
                log("NONCONFORMANCE event=%s line=%d of %s (conformance only; decides no property)"
                    % (name, lineno, os.path.basename(chunk)))
        # report each history once
        seen, uniq = set(), []
        for hist, last in violations:
            key = json.dumps(hist["reset"].get("tag", "")) + str(len(hist["ops"]))
            if hist["reset"].get("tag", "") in seen:
                continue
            seen.add(hist["reset"].get("tag", ""))
            uniq.append((hist, last))

        # ---- the specification itself, exhaustively within bounds (and the extra machinery)
        mc = mc_future.result()
        try:
            extra = props.extra_checks(prop, tier, seed, workdir, drive, build=BUILD)
        except RuntimeError as e:
            raise MachineryError(str(e))
        for x in extra.get("violations", []):
            uniq.append(x)

        replay_paths = []
        for i, (hist, last) in enumerate(uniq[:5]):
            path = os.path.join(VERIF, "replays", "%s-%d-%d.json" % (prop, seed, i))
            with open(path, "w") as f:
                json.dump([hist], f)
            if isinstance(hist, dict) and "reset" in hist and not reproduce(prop, path, workdir):
                raise MachineryError("violation of %s not reproduced when replaying %s" % (prop, path))
            replay_paths.append(path)

        if mc:
            cov["states"] = sum(m.get("distinct", 0) for m in mc)
            cov["transitions"] = sum(m.get("generated", 0) for m in mc)
        cov["model_checking"] = mc
        cov["exhaustive"] = bool(mc) and all(m.get("complete") for m in mc if not m.get("config", "").startswith("sim"))
        cov["exhaustive_scope"] = ("the bounded TLC configurations under model_checking and the S4 searches of the implementation "
                                   "(trace_sources.exhaustive_search) ran to completion; the sources S1-S3 are samples")
        cov["traces_validated_against_impl"] = hist_count
        cov["evaluations"] = nlines + extra.get("evaluations", 0)
        cov["distinct_nontrivial"] = len(nontrivial) + extra.get("distinct_nontrivial", 0)
        cov["rule"] = props.RULE + " " + spec.get("rule", "") + " " + extra.get("rule", "")
        cov["events_by_type"] = counts
        cov["trace_sources"] = src_stats
        cov["nonconforming_steps"] = nonconf
        cov["samples"] = props.samples(traces, nontrivial) + extra.get("samples", [])
        cov["extra"] = {k: v for k, v in extra.items() if k not in ("violations", "samples")}
        if extra.get("ledger_inductive_invariant"):
            # the two Apalache obligations of the ledger's inductive invariant (about the design, see DESIGN 10.5)
            cov["obligations"] = len(extra["ledger_inductive_invariant"])
            cov["discharged"] = sum(1 for o in extra["ledger_inductive_invariant"] if o["outcome"] == "NoError")
            cov["checker_cmd"] = ("apalache-mc check --cinit=<ConstInit> --next=<Next> --inv=<IndInv> (--init=<Init> --length=0 | "
                                  "--init=<IndInit> --length=1) %s.tla" % extra["ledger_inductive_invariant"][0].get("module", "Ledger"))
        cov["known_findings_seen"] = sorted(set(known_hits))
        ev["coverage"] = cov
        ev["assumptions"] = props.ASSUMPTIONS
        ev["violations"] = len(uniq)
        ev["wall_s"] = round(time.time() - t0, 1)
        with open(os.path.join(VERIF, "evidence", prop + ".json"), "w") as f:
            json.dump(ev, f, indent=1)
        for fid in sorted(set(known_hits)):
            f = [x for x in known["findings"] if x["id"] == fid][0]
            log("KNOWN-FINDING: property=%s %s" % (prop, f["what"]))
        for fid in extra.get("known", []):
            log("KNOWN-FINDING: property=%s %s" % (prop, fid))
        if uniq:
            for p in replay_paths or ["-"]:
                log("VIOLATION property=%s replay=%s" % (prop, p))
            return 1
        log("OK %s tier=%s seed=%d: %d implementation events in %d histories validated, %d model states, %.0fs"
            % (prop, tier, seed, nlines, hist_count, cov.get("states", 0), time.time() - t0))
        return 0
    finally:
        shutil.rmtree(workdir, ignore_errors=True)


def reproduce(prop, path, workdir):
    """re-execute the recorded history on a fresh instance; True if the same property fails again"""
    out = os.path.join(workdir, "replay-%d.ndjson" % (time.time_ns() % 10**9))
    drive(["replay", "-in", path, "-out", out])
    res = validate([out], {prop} if prop else set(props.PROPS), workdir, jobs=1)
    for _, viol, _, _ in res:
        for _, ids in viol:
            if prop is None or prop in ids:
                return True
    return False


def run_survey(tier, seed, patch=None):
    """one pass over the trace sources judging every property at once (no model checking of the
    specification): used to see which checks notice a change to /repo.  Prints a JSON summary."""
    workdir = os.path.join(VERIF, "work", "survey-%d" % os.getpid())
    shutil.rmtree(workdir, ignore_errors=True)
    os.makedirs(workdir)
    res = {"violated": {}, "nonconf": 0, "errors": []}
    try:
        try:
            build_harness()
        except MachineryError as e:
            res["errors"].append("build: " + str(e)[-800:])
            return res
        try:
            traces, _ = props.make_traces("ALL", tier, seed, workdir, drive)
        except MachineryError as e:
            # a crashing driver is itself a sign (e.g. a panic outside recover); report it
            res["errors"].append("driver: " + str(e)[-800:])
            traces = [t for t in glob.glob(os.path.join(workdir, "s*.ndjson")) if os.path.getsize(t) > 0]
        try:
            results = validate(traces, set(props.TRACE_PROPS), workdir)
        except MachineryError as e:
            res["errors"].append("tlc: " + str(e)[-800:])
            results = []
        for chunk, viol, nc, _ in results:
            res["nonconf"] += len(nc)
            known = load_known()
            for lineno, ids in viol:
                for p in ids:
                    if p not in res["violated"]:
                        hist, lines = history_prefix(chunk, lineno)
                        if any(matches_finding(f, p, hist) for f in known.get("findings", [])):
                            continue
                        res["violated"][p] = {"tag": hist["reset"].get("tag"), "event": lines[-1]["ev"]["name"],
                                              "ops": len(hist["ops"])}
        for p in ("C18", "C20"):
            try:
                x = props.extra_checks(p, tier, seed, workdir, drive, build=BUILD)
                if x.get("violations"):
                    res["violated"].setdefault(p, {"tag": "extra", "event": str(x["violations"][0][0])[:200]})
            except (RuntimeError, MachineryError) as e:
                res["errors"].append("%s extra: %s" % (p, str(e)[-500:]))
        return res
    finally:
        shutil.rmtree(workdir, ignore_errors=True)


def run_replay(path):
    workdir = os.path.join(VERIF, "work", "replay-%d" % os.getpid())
    os.makedirs(workdir, exist_ok=True)
    try:
        build_harness()
        out = os.path.join(workdir, "replay.ndjson")
        drive(["replay", "-in", path, "-out", out])
        res = validate([out], set(props.TRACE_PROPS), workdir, jobs=1)
        bad = set()
        for _, viol, nc, _ in res:
            for lineno, ids in viol:
                log("line %d violates %s" % (lineno, ",".join(sorted(ids))))
                bad |= ids
        for p in sorted(bad):
            log("VIOLATION property=%s replay=%s" % (p, path))
        return 1 if bad else 0
    finally:
        shutil.rmtree(workdir, ignore_errors=True)


def _cleanup_build():
    if BUILD.startswith(os.path.join(VERIF, "work")):
        shutil.rmtree(BUILD, ignore_errors=True)


def main():
    import atexit
    atexit.register(_cleanup_build)
    ap = argparse.ArgumentParser()
    ap.add_argument("prop", nargs="?")
    ap.add_argument("--tier", default=os.environ.get("VERIF_TIER", "quick"))
    ap.add_argument("--replay")
    ap.add_argument("--survey", action="store_true")
    a = ap.parse_args()
    seed = int(os.environ.get("VERIF_SEED", "1") or 1)
    try:
        if a.replay:
            sys.exit(run_replay(a.replay))
        if a.survey:
            print("SURVEY " + json.dumps(run_survey(a.tier, seed)))
            sys.exit(0)
        if a.prop not in props.PROPS:
            log("unknown property", a.prop)
            sys.exit(2)
        sys.exit(run_check(a.prop, a.tier, seed))
    except MachineryError as e:
        log("MACHINERY-ERROR (no verdict): %s" % e)
        sys.exit(2)


if __name__ == "__main__":
    main()
